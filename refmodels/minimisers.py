"""KKT-certified minimisers of small composite problems

    F(x) = 1/2 ||M x - y||^2 + g(x),   g in {none, l1, l2, box},

possibly with an extra quadratic  lam2/2 ||x - z||^2  (used by the lls world),
and  g(G x)  handled by the caller through a change of variables where exact.
Everything is float64 / complex128 dense algebra written for the harness; the
code under test is never called.
"""
import itertools

import numpy as np


class NoCertificate(Exception):
    pass


class Composite:
    def __init__(self, M, y, gkind="none", lam=0.0, lo=None, hi=None, lam2=0.0, z=None):
        def _c(a):
            return a is not None and np.iscomplexobj(a) and bool(np.any(np.imag(a) != 0))
        self.cplx = _c(M) or _c(y) or _c(z)
        dt = np.complex128 if self.cplx else np.float64
        if not self.cplx:
            M, y = np.real(M), np.real(y)
            z = None if z is None else np.real(z)
        self.M = np.asarray(M, dtype=dt)
        self.y = np.asarray(y, dtype=dt).ravel()
        self.n = self.M.shape[1]
        self.gkind = gkind
        self.lam = float(lam)
        self.lo, self.hi = lo, hi
        self.lam2 = float(lam2)
        self.z = np.zeros(self.n, dtype=dt) if z is None else np.asarray(z, dtype=dt).ravel()
        self.H = self.M.conj().T @ self.M + self.lam2 * np.eye(self.n)
        self.H = (self.H + self.H.conj().T) / 2
        self.c = self.M.conj().T @ self.y + self.lam2 * self.z
        ev = np.linalg.eigvalsh(self.H)
        self.L = float(max(ev[-1], 1e-300))
        self.mu = float(max(ev[0], 0.0))
        self.scale = float(np.linalg.norm(self.c) + self.lam + 1e-300)

    # ------------------------------------------------------------ pieces
    def f(self, x):
        x = np.asarray(x).ravel()
        r = self.M @ x - self.y
        v = 0.5 * float(np.real(np.vdot(r, r)))
        if self.lam2:
            d = x - self.z
            v += 0.5 * self.lam2 * float(np.real(np.vdot(d, d)))
        return v

    def g(self, x):
        x = np.asarray(x).ravel()
        if self.gkind == "none":
            return 0.0
        if self.gkind == "l1":
            return self.lam * float(np.sum(np.abs(x)))
        if self.gkind == "l2":
            return 0.5 * self.lam * float(np.real(np.vdot(x, x)))
        if self.gkind == "box":
            tol = 1e-12 * (1 + max(abs(self.lo), abs(self.hi)))
            if np.all(x.real >= self.lo - tol) and np.all(x.real <= self.hi + tol):
                return 0.0
            return float("inf")
        raise ValueError(self.gkind)

    def F(self, x):
        return self.f(x) + self.g(x)

    def grad(self, x):
        return self.H @ x - self.c

    def prox(self, v, s):
        k = self.gkind
        if k == "none":
            return v
        if k == "l1":
            a = np.abs(v)
            with np.errstate(divide="ignore", invalid="ignore"):
                sc = np.where(a > 0, np.maximum(a - self.lam * s, 0) / np.where(a > 0, a, 1), 0)
            return v * sc
        if k == "l2":
            return v / (1 + self.lam * s)
        if k == "box":
            return np.clip(v, self.lo, self.hi)
        raise ValueError(k)

    def kkt(self, x):
        s = 1.0 / self.L
        x = np.asarray(x).ravel()
        return float(np.linalg.norm(x - self.prox(x - s * self.grad(x), s)) / s)

    # ------------------------------------------------------------ solvers
    def fista(self, x, iters):
        s = 1.0 / self.L
        z = x.copy()
        t = 1.0
        for _ in range(iters):
            xn = self.prox(z - s * self.grad(z), s)
            tn = (1 + (1 + 4 * t * t) ** 0.5) / 2
            if np.real(np.vdot(z - xn, xn - x)) > 0:  # gradient restart
                tn = 1.0
                z = xn
            else:
                z = xn + ((t - 1) / tn) * (xn - x)
            x, t = xn, tn
        return x

    def _solve_sub(self, S, rhs):
        if len(S) == 0:
            return np.zeros(0, dtype=self.H.dtype)
        Hs = self.H[np.ix_(S, S)]
        return np.linalg.lstsq(Hs, rhs, rcond=None)[0]

    def polish(self, x):
        k = self.gkind
        n = self.n
        if k == "l1" and not self.cplx:
            thr = 1e-9 * (np.max(np.abs(x)) + 1e-300)
            S = [j for j in range(n) if abs(x[j]) > thr]
            sg = np.sign(x[S])
            xs = self._solve_sub(S, self.c[S] - self.lam * sg)
            out = np.zeros(n)
            out[S] = xs
            return out
        if k == "l1":
            thr = 1e-9 * (np.max(np.abs(x)) + 1e-300)
            S = [j for j in range(n) if abs(x[j]) > thr]
            if not S:
                return np.zeros(n, dtype=np.complex128)
            xs = x[S].copy()
            Hs = self.H[np.ix_(S, S)]
            cs = self.c[S]
            m = len(S)
            Hr = np.block([[Hs.real, -Hs.imag], [Hs.imag, Hs.real]])
            for _ in range(30):
                a = np.abs(xs)
                if np.any(a == 0):
                    break
                u = xs / a
                res = Hs @ xs - cs + self.lam * u
                if np.linalg.norm(res) <= 1e-15 * self.scale:
                    break
                ur, ui = u.real, u.imag
                # d(x/|x|) as a real 2x2 block per coordinate: (I - u u^T)/|x|
                J = np.zeros((2 * m, 2 * m))
                for j in range(m):
                    J[j, j] = (1 - ur[j] * ur[j]) / a[j]
                    J[j, m + j] = (-ur[j] * ui[j]) / a[j]
                    J[m + j, j] = (-ur[j] * ui[j]) / a[j]
                    J[m + j, m + j] = (1 - ui[j] * ui[j]) / a[j]
                Jt = Hr + self.lam * J
                rr = np.concatenate([res.real, res.imag])
                try:
                    d = np.linalg.lstsq(Jt, -rr, rcond=None)[0]
                except np.linalg.LinAlgError:
                    break
                xs = xs + (d[:m] + 1j * d[m:])
            out = np.zeros(n, dtype=np.complex128)
            out[S] = xs
            return out
        if k == "box":
            tolb = 1e-9 * (1 + max(abs(self.lo), abs(self.hi)))
            atlo = [j for j in range(n) if x[j] <= self.lo + tolb]
            athi = [j for j in range(n) if x[j] >= self.hi - tolb and j not in atlo]
            free = [j for j in range(n) if j not in atlo and j not in athi]
            out = np.zeros(n)
            out[atlo] = self.lo
            out[athi] = self.hi
            fixed = atlo + athi
            rhs = self.c[free] - (self.H[np.ix_(free, fixed)] @ out[fixed] if fixed else 0)
            out[free] = self._solve_sub(free, rhs)
            return out
        return x

    def _enumerate(self):
        n = self.n
        best, bestr = None, np.inf
        if self.gkind == "l1" and not self.cplx:
            for pat in itertools.product((0, 1, -1), repeat=n):
                S = [j for j in range(n) if pat[j] != 0]
                sg = np.array([pat[j] for j in S], dtype=float)
                xs = self._solve_sub(S, self.c[S] - self.lam * sg)
                x = np.zeros(n)
                x[S] = xs
                r = self.kkt(x)
                if r < bestr:
                    best, bestr = x, r
                    if r <= 1e-13 * self.scale:
                        break
        elif self.gkind == "box":
            for pat in itertools.product((0, 1, 2), repeat=n):
                free = [j for j in range(n) if pat[j] == 0]
                fixed = [j for j in range(n) if pat[j] != 0]
                x = np.zeros(n)
                for j in fixed:
                    x[j] = self.lo if pat[j] == 1 else self.hi
                rhs = self.c[free] - (self.H[np.ix_(free, fixed)] @ x[fixed] if fixed else 0)
                x[free] = self._solve_sub(free, rhs)
                r = self.kkt(x)
                if r < bestr:
                    best, bestr = x, r
                    if r <= 1e-13 * self.scale:
                        break
        return best, bestr

    def solve(self, near=None, cert=1e-11):
        """Return (x*, F*, kkt residual). `near`: for non-unique minimisers of
        smooth problems, return the minimiser closest to this point."""
        n = self.n
        dt = self.H.dtype
        k = self.gkind
        if k in ("none", "l2"):
            Hh = self.H + (self.lam * np.eye(n) if k == "l2" else 0)
            x0 = np.zeros(n, dtype=dt) if near is None else np.asarray(near, dtype=dt).ravel()
            x = x0 + np.linalg.lstsq(Hh, self.c - Hh @ x0, rcond=None)[0]
            r = self.kkt(x)
            if r > cert * self.scale:
                # one step of iterative refinement
                x = x + np.linalg.lstsq(Hh, self.c - Hh @ x, rcond=None)[0]
                r = self.kkt(x)
            if r > cert * self.scale:
                raise NoCertificate("smooth %g" % (r / self.scale))
            return x, self.F(x), r
        if k == "box" and self.cplx:
            raise NoCertificate("complex box unsupported")
        x = np.zeros(n, dtype=dt)
        if k == "box":
            x = np.clip(x, self.lo, self.hi)
        x = self.fista(x, 300)
        for rnd in range(4):
            xp = self.polish(x)
            if k == "box":
                xp = np.clip(xp, self.lo, self.hi)
            r = self.kkt(xp)
            if r <= cert * self.scale:
                return xp, self.F(xp), r
            x = self.fista(x, 1500)
        if not self.cplx and n <= 7:
            xb, r = self._enumerate()
            if xb is not None and r <= cert * self.scale:
                return xb, self.F(xb), r
        raise NoCertificate("%s n=%d kkt=%g" % (k, n, self.kkt(x) / self.scale))
