"""Dense reference models for conjugate gradient (all float64/complex128)."""
import numpy as np


def anorm(A, v):
    v = v.ravel()
    q = np.real(np.vdot(v, A @ v))
    return float(np.sqrt(max(q, 0.0)))


def krylov_optimal(A, P, b, x0, kmax):
    """Exact A-norm minimisers over x0 + K_k(PA, P r0), k = 0..kmax.

    Arnoldi in the Euclidean inner product with double re-orthogonalisation,
    then a projected (Galerkin) solve. Returns (list of x_k*, rank) where rank
    is the dimension at which the Krylov space became invariant (or kmax).
    """
    n = A.shape[0]
    A = A.astype(np.complex128)
    b = b.astype(np.complex128).ravel()
    x0 = x0.astype(np.complex128).ravel()
    if P is None:
        P = np.eye(n, dtype=np.complex128)
    else:
        P = P.astype(np.complex128)
    r0 = b - A @ x0
    M = P @ A
    mnorm = np.linalg.norm(M, 2)
    v = P @ r0
    out = [x0.copy()]
    V = np.zeros((n, 0), dtype=np.complex128)
    nv = np.linalg.norm(v)
    rank = None
    scale0 = np.linalg.norm(P, 2) * (np.linalg.norm(b) + np.linalg.norm(A, 2) * np.linalg.norm(x0))
    if nv <= 1e-14 * scale0 or nv == 0:
        rank = 0
    for k in range(1, kmax + 1):
        if rank is None:
            V = np.concatenate([V, (v / nv)[:, None]], axis=1)
            G = V.conj().T @ A @ V
            G = (G + G.conj().T) / 2
            c = np.linalg.solve(G, V.conj().T @ r0)
            out.append(x0 + V @ c)
            if k == n:
                rank = k
            else:
                w = M @ V[:, -1]
                for _ in range(2):
                    w = w - V @ (V.conj().T @ w)
                nw = np.linalg.norm(w)
                if nw <= 1e-12 * mnorm:
                    rank = k
                else:
                    v, nv = w, nw
        else:
            out.append(out[-1].copy())
    return out, (rank if rank is not None else kmax)


def textbook_pcg(A, P, b, x0, kmax, dtype):
    """Plain textbook preconditioned CG in the given precision; returns the
    iterates x_0..x_kmax (stops moving on breakdown / zero residual)."""
    A = A.astype(dtype)
    b = b.astype(dtype).ravel()
    x = x0.astype(dtype).ravel().copy()
    Pm = None if P is None else P.astype(dtype)
    r = b - A @ x
    z = r if Pm is None else Pm @ r
    p = z.copy()
    rz = np.real(np.vdot(r, z))
    out = [x.copy()]
    hist = [float(rz)]
    dead = False
    for _ in range(kmax):
        if not dead:
            Ap = A @ p
            pAp = np.real(np.vdot(p, Ap))
            if not (pAp > 0):
                dead = True
            else:
                alpha = rz / pAp
                x = x + alpha * p
                r = r - alpha * Ap
                z = r if Pm is None else Pm @ r
                rznew = np.real(np.vdot(r, z))
                if not (rz > 0):
                    dead = True
                    out.append(x.copy())
                    hist.append(float("nan"))
                    continue
                beta = rznew / rz
                p = z + beta * p
                rz = rznew
        out.append(x.copy())
        hist.append(float(rz) if not dead else float("nan"))
    return out, hist
