"""World `pg` (property C13): caller <-> GradientMethod / PrimalDualHybridGradient
<-> gradient / prox / operator callbacks. Every prefix of the update history is
judged against theory (monotone descent, O(1/k) and O(1/k^2) rates, saddle
points are fixed points, Fejer monotonicity in the M-norm, bounded
convergence) using a KKT-certified reference minimiser."""
import copy
import random

import numpy as np

from refmodels.minimisers import Composite, NoCertificate
from simkit import codec
from simkit.ledger import Ledger
from simkit.world import Discard, Result, Violation, World, mk_rng

from . import common

GM_STATE = ["x", "z", "t", "resid", "iter", "alpha", "max_iter", "tol"]
PD_STATE = ["x", "u", "x_ext", "tau", "sigma", "theta", "tau_min", "sigma_min", "resid", "iter"]


class PGWorld(World):
    name = "pg"
    property_id = "C13"

    # ------------------------------------------------------------------ plan
    def warmup(self, config="default"):
        if config != "history":
            common.warm_jit()

    def gen_history_plan(self, seed, tier):
        """A process history: several small solver sessions of mixed dtype run
        back to back in one fresh interpreter (no canonical warm-up)."""
        rng = mk_rng(self.name + ":history", seed)
        subs = []
        for i in range(rng.randint(2, 4)):
            sub = self.gen_plan(rng.getrandbits(40), tier)
            kk = sub["knobs"]
            if rng.random() < 0.8:
                kk["form"] = "objects"
                if kk["gkind"] in ("none", "l2") or (kk["gkind"] == "box" and rng.random() < 0.5):
                    kk["gkind"] = "l1"
            kk["long"] = False
            K = min(sub["K"], rng.choice([2, 5, 8]))
            sub["K"] = K
            sub["schedule"] = ["U"] * K + ["D"]
            subs.append(sub)
        return {"world": self.name, "seed": seed, "history": subs,
                "schedule": list(range(len(subs))), "faults": [],
                "knobs": {"alg": "history"}}

    def gen_plan(self, seed, tier, config="default"):
        if config == "history":
            return self.gen_history_plan(seed, tier)
        rng = mk_rng(self.name, seed)
        g = common.np_gen(rng)
        k = {}
        k["alg"] = rng.choice(["GM", "GM", "PDHG", "PDHG", "PDHG"])
        cplx = rng.random() < 0.5
        k["complex"] = cplx
        gk = rng.choice(["none", "l1", "l1", "l2", "box"])
        if gk == "box" and cplx:
            gk = "l1"
        k["gkind"] = gk
        k["family"] = rng.choice(["benign", "benign", "worst"])
        if k["alg"] == "PDHG" and rng.random() < 0.12:
            # well-conditioned core with differently scaled columns: non-uniform diagonal steps,
            # used for the bounded-convergence check of the primal strong-convexity acceleration
            k["family"] = "spread"
            gk = "l2"
            k["gkind"] = gk
        k["form"] = rng.choice(["closure", "objects"])
        k["ret"] = rng.choice(["fresh", "fresh", "reuse", "noncontig"])
        k["interfere"] = rng.random() < 0.2
        k["iterprox"] = rng.random() < 0.2
        k["views"] = rng.random() < 0.2
        n = rng.randint(1, 6)
        k["Aalias"] = "none"
        if k["alg"] == "PDHG" and k["family"] != "spread" and rng.random() < 0.15:
            # denoising-type problem: A = I, handed over as an operator that returns its input
            k["family"] = "identity"
            k["Aalias"] = rng.choice(["linop_identity", "lambda", "reshape"])
        if k["alg"] == "GM" and rng.random() < 0.35:
            # singular values spread log-uniformly over three decades: the regime in which
            # the O(1/k) and O(1/k^2) bounds are closest to being attained
            k["family"] = "spectrum"
        if k["family"] == "spectrum":
            n = max(n, 2)
            m = rng.randint(n, 8)
            q1 = common.rand_unitary(g, m, cplx)[:, :n]
            q2 = common.rand_unitary(g, n, cplx)
            sv = [10 ** rng.uniform(-3, 0) for _ in range(n)]
            sv[0] = 1.0
            M = (q1 * np.asarray(sv)) @ q2.conj().T
        elif k["family"] == "identity":
            m = n
            M = np.eye(n) + (0j if cplx else 0)
        elif k["family"] in ("benign", "spread"):
            if k["family"] == "spread":
                n = max(n, 2)
            m = rng.randint(n, 8)
            q1 = common.rand_unitary(g, m, cplx)[:, :n]
            q2 = common.rand_unitary(g, n, cplx)
            c = rng.uniform(1, 5)
            sv = [c ** rng.random() for _ in range(n)]
            sv[0] = 1.0
            M = (q1 * np.asarray(sv)) @ q2.conj().T * rng.uniform(0.5, 2)
            if k["family"] == "spread":
                M = M * np.exp(np.array([rng.uniform(-1.5, 1.5) for _ in range(n)]))
        else:
            m = rng.randint(1, 8)
            M = common.randn(g, (m, n), cplx)
            M = M * np.exp(np.array([rng.uniform(-2, 2) for _ in range(n)]))
            if n > 1 and rng.random() < 0.4:
                j = rng.randrange(1, n)
                M[:, j] = M[:, 0] * rng.uniform(-2, 2)
        if not cplx:
            M = np.real(M)
        y = common.randn(g, (m,), cplx)
        if rng.random() < 0.08:
            y = np.zeros_like(y)
        lam = float(10 ** rng.uniform(-2, 0.7))
        lo, hi = sorted([round(rng.uniform(-1, 0.5), 3), round(rng.uniform(-0.5, 1), 3)])
        if lo == hi:
            hi = lo + 0.5
        plan = {"world": self.name, "seed": seed, "knobs": k, "n": n, "m": m,
                "M": codec.enc(M), "y": codec.enc(y), "lam": lam, "lo": lo, "hi": hi}
        start = rng.choice(["random", "random", "zero", "exact"])
        k["start"] = start
        plan["x0"] = codec.enc(common.randn(g, (n,), cplx) * rng.choice([0.1, 1, 10]) if start != "zero"
                               else np.zeros(n, dtype=M.dtype))
        plan["u0"] = codec.enc(common.randn(g, (m,), cplx) if start != "zero" else np.zeros(m, dtype=M.dtype))
        if k["alg"] == "GM":
            k["c"] = rng.choice([1.0, 1.0, 0.9, 0.5, 0.1])
            k["accelerate"] = rng.random() < 0.5
            K = rng.choice([5, 12, 30, 60, 120, 200]) if k["family"] != "spectrum" else rng.choice([60, 120, 200, 400])
        else:
            k["steps"] = rng.choice(["scalar", "scalar", "array", "array", "tau_scalar_sigma_array", "tau_array_sigma_scalar"])
            k["sigma_rel"] = float(10 ** rng.uniform(-1, 1))
            k["c"] = rng.choice([1.0, 0.9])
            opts = ["none", "none", "dual"]
            if gk == "l2":
                opts += ["primal", "primal", "both"]
            k["gamma"] = rng.choice(opts)
            k["long"] = (k["family"] in ("benign", "identity")) and rng.random() < 0.35
            if k["family"] == "spread":
                k["long"], k["steps"], k["gamma"], k["c"] = True, "array", "primal", 1.0
            if k["long"]:
                k["sigma_rel"] = float(10 ** rng.uniform(-0.5, 0.5))
            K = 2000 if k["long"] else rng.choice([5, 12, 30, 60, 120])
        plan["K"] = K
        # the caller may drive the object for more updates than max_iter (a plain
        # for-loop over update()): the trajectory must not depend on max_iter
        plan["max_iter"] = rng.choice([K + 5, K + 5, K + 5, max(1, K // 2), min(K, 3), K])
        # boundary budgets (own generator: the other sessions' plans stay what they were)
        plan["call_style"] = random.Random("pg-callstyle:%d" % seed).choice(["keyword"] * 5 + ["positional"])
        r_mi = random.Random("pg-maxiter:%d" % seed)
        if r_mi.random() < 0.1:
            plan["max_iter"] = r_mi.choice([0, 1, 1, 2])
        sched = []
        dense_queries = K <= 60
        for i in range(K):
            if dense_queries and rng.random() < 0.25:
                sched.append(rng.choice(["D", "X"]))
            sched.append("U")
        sched.append("D")
        plan["schedule"] = sched
        plan["faults"] = []
        return plan

    def sample_view(self, plan):
        if "history" in plan:
            return {"world": self.name, "seed": plan["seed"],
                    "history": [self.sample_view(s) for s in plan["history"]]}
        v = {k: plan[k] for k in ("world", "seed", "knobs", "n", "m", "lam", "lo", "hi", "K")}
        v["schedule_head"] = plan["schedule"][:12]
        v["schedule_len"] = len(plan["schedule"])
        return v

    # --------------------------------------------------------------- execute
    def execute(self, plan):
        res = Result()
        if "history" in plan:
            kinds = []
            for pos, idx in enumerate(plan["schedule"]):
                sub = plan["history"][idx]
                r = Result()
                try:
                    self._run(sub, r)
                except Violation as v:
                    d = v.as_dict()
                    d["detail"] = {"sub_session": idx, "sub_step": d["step"], "inner": d["detail"],
                                   "sub_knobs": sub["knobs"]}
                    d["step"] = pos
                    res.violation = d
                except Discard as dd:
                    res.stats["probes.history_sub_discarded"] += 1
                res.stats.update(r.stats)
                res.trace.append({"sub": idx, "digest": r.trace_digest})
                kk = sub["knobs"]
                kinds.append([kk["alg"], kk["complex"], kk["gkind"], kk["form"]])
                res.sim_time += r.sim_time
                for kx, vx in r.maxima.items():
                    res.note_max(kx, vx)
                if res.violation is not None:
                    break
            res.stats["probes.history_sessions"] += 1
            res.nontrivial = True
            res.fingerprint = codec.json_digest(["history", kinds])
            return res
        try:
            self._run(plan, res)
        except Violation as v:
            res.violation = v.as_dict()
        except Discard as d:
            res.discarded = d.why
        return res

    def _run(self, plan, res):
        import sigpy as sp
        from sigpy.alg import GradientMethod, PrimalDualHybridGradient

        k = plan["knobs"]
        stats = res.stats
        n, m = plan["n"], plan["m"]
        M = codec.dec(plan["M"])
        y = codec.dec(plan["y"])
        cplx = np.iscomplexobj(M)
        dt = M.dtype
        gk = k["gkind"]
        lam = plan["lam"]
        lo, hi = plan["lo"], plan["hi"]
        prob = Composite(M, y, gk, lam, lo, hi)
        x0 = codec.dec(plan["x0"]).astype(dt)
        try:
            xs, Fs, kres = prob.solve(near=x0, cert=1e-12 if k["start"] == "exact" else 1e-11)
        except NoCertificate as e:
            stats["probes.reference_discarded"] += 1
            raise Discard("no_certificate:" + gk)
        xs = xs.astype(dt)
        us = (M @ xs - y).astype(dt)
        objects = k["form"] == "objects"
        xshape = [n, 1] if objects else [n]
        ushape = [m, 1] if objects else [m]
        if k["start"] == "exact":
            x0 = xs.copy()
        x_caller = x0.reshape(xshape).copy()
        if k.get("views"):
            x_caller = common.as_view(x_caller)
            stats["buggify.caller_arrays_are_views"] += 1
        ledger = Ledger()
        ledger.own("M", M)
        ledger.own("y", y)
        MH = M.conj().T.copy()
        L = prob.L
        ret = k.get("ret", "fresh")

        # ---- prox of g
        if objects:
            if gk == "none":
                proxg_raw = sp.prox.NoOp(xshape)
            elif gk == "l1":
                proxg_raw = sp.prox.L1Reg(xshape, lam)
            elif gk == "l2":
                proxg_raw = sp.prox.L2Reg(xshape, lam)
            else:
                proxg_raw = sp.prox.BoxConstraint(xshape, lo, hi)
        else:
            def proxg_raw(a, v):
                a = np.asarray(a)
                if a.ndim:
                    a = a.reshape(v.shape)
                return prob_prox(v, a)

            def prob_prox(v, a):
                if gk == "none":
                    return v.copy()
                if gk == "l1":
                    ab = np.abs(v)
                    sc = np.where(ab > 0, np.maximum(ab - lam * a, 0) / np.where(ab > 0, ab, 1), 0)
                    return v * sc
                if gk == "l2":
                    return v / (1 + lam * a)
                return np.clip(v, lo, hi)
        itf = bool(k.get("interfere"))
        if k.get("iterprox"):
            proxg_raw = common.iterative_prox(proxg_raw, stats)
        proxg = common.Proxy("proxg", proxg_raw, ret, stats, interfere=itf)

        F0 = prob.f(x0) + (prob.g(x0) if gk != "box" else 0.0)
        fscale = abs(prob.f(x0)) + abs(Fs) + 1e-12
        d0sq = float(np.linalg.norm(x0.ravel() - xs.ravel()) ** 2)
        trace = res.trace
        acts = []
        st = {"k": 0, "judged": 0}

        if k["alg"] == "GM":
            alpha = k["c"] / L
            if objects:
                A = sp.linop.MatMul(xshape, M)
                AHy = A.H(y.reshape(ushape))
                ledger.own("AHy", AHy)

                def gradf_raw(v):
                    return A.N(v) - AHy
            else:
                def gradf_raw(v):
                    return (MH @ (M @ v.ravel() - y)).reshape(v.shape)
            gradf = common.Proxy("gradf", gradf_raw, ret, stats, interfere=itf)
            use_prox = not (gk == "none" and plan["seed"] % 2 == 0)
            cargs, ckw = (gradf, x_caller, alpha), dict(proxg=proxg if use_prox else None, accelerate=k["accelerate"],
                                                      max_iter=plan.get("max_iter", plan["K"] + 5), tol=0)
            if plan.get("call_style") == "positional":
                cargs, ckw = common.as_positional("GradientMethod", cargs, ckw)
                stats["buggify.positional_arguments"] += 1
            alg = common.lib_call("GradientMethod.__init__", -1, GradientMethod, *cargs, **ckw)
            site = "GradientMethod"
            STATE = GM_STATE
            Fprev = [prob.F(x0)]

            def judge(step):
                kk = st["k"]
                xk = x_caller.ravel().astype(prob.H.dtype)
                Fk = prob.F(xk)
                if not np.isfinite(Fk):
                    raise Violation("objective_not_finite", site + ".update", step, {"k": kk, "F": Fk})
                tolF = 1e-10 * fscale
                if not k["accelerate"]:
                    res.note_max("gm_monotone_over_tol", (Fk - Fprev[0]) / tolF if np.isfinite(Fprev[0]) else -1)
                    if Fk > Fprev[0] + tolF:
                        raise Violation("objective_increased", site + ".update", step,
                                        {"k": kk, "F": Fk, "F_prev": Fprev[0], "tol": tolF})
                    bound = d0sq / (2 * alpha * kk)
                    name = "rate_O1k"
                else:
                    bound = 2 * d0sq / (alpha * (kk + 1) ** 2)
                    name = "rate_O1k2"
                gap = Fk - Fs
                res.note_max("gm_%s_gap_over_bound" % name, gap / (bound + tolF))
                if gap > bound + tolF:
                    raise Violation(name, site + ".update", step,
                                    {"k": kk, "gap": gap, "bound": bound, "alpha": alpha, "L": L, "d0sq": d0sq})
                if gap < -1e-9 * fscale:
                    raise Violation("below_certified_optimum", site + ".update", step, {"k": kk, "gap": gap})
                Fprev[0] = Fk
                st["judged"] += 1
                if kk <= 40 or kk % 50 == 0:
                    trace.append({"a": "U", "k": kk, "gap": codec.fnum(gap / fscale, 5)})
            outs = [x_caller]
        else:
            # ---------------- PDHG
            u_caller = codec.dec(plan["u0"]).astype(dt).reshape(ushape)
            if k["start"] == "exact":
                u_caller = us.reshape(ushape).copy()
            if k.get("views"):
                u_caller = common.as_view(u_caller)
            u0 = u_caller.copy()
            normA = float(np.linalg.norm(M, 2))
            if normA == 0:
                raise Discard("zero_operator")
            if k["steps"] == "scalar":
                sigma = k["sigma_rel"] / normA
                tau = k["c"] / (sigma * normA ** 2)
                T = np.full(n, tau)
                S = np.full(m, sigma)
                tau_arg, sigma_arg = tau, sigma
            else:
                colsum = np.sum(np.abs(M), axis=0)
                rowsum = np.sum(np.abs(M), axis=1)
                if np.any(colsum == 0) or np.any(rowsum == 0):
                    raise Discard("zero_row_or_column")
                T = k["c"] / colsum
                S = 1.0 / rowsum
                # mixed layouts keep the Pock-Chambolle condition: a scalar step is the
                # smallest entry of the corresponding diagonal preconditioner
                if k["steps"] == "tau_scalar_sigma_array":
                    T = np.full(n, float(np.min(T)))
                    tau_arg = float(T[0])
                    sigma_arg = S.reshape(ushape).copy()
                elif k["steps"] == "tau_array_sigma_scalar":
                    S = np.full(m, float(np.min(S)))
                    tau_arg = T.reshape(xshape).copy()
                    sigma_arg = float(S[0])
                else:
                    tau_arg = T.reshape(xshape).copy()
                    sigma_arg = S.reshape(ushape).copy()
            gam = k["gamma"]
            gp = lam if gam in ("primal", "both") else 0
            gd = 1 if gam in ("dual", "both") else 0
            accel = gam in ("primal", "dual")
            if objects:
                A = sp.linop.MatMul(xshape, M)
                A_raw, AH_raw = A, A.H
                negy = -y.reshape(ushape)
                ledger.own("negy", negy)
                proxfc_raw = sp.prox.L2Reg(ushape, 1, y=negy)
            else:
                def A_raw(v):
                    return (M @ v.ravel()).reshape(ushape)

                def AH_raw(v):
                    return (MH @ v.ravel()).reshape(xshape)

                def proxfc_raw(a, v):
                    a = np.asarray(a)
                    if a.ndim:
                        a = a.reshape(v.shape)
                    return (v - a * y.reshape(v.shape)) / (1 + a)
            al = k.get("Aalias", "none")
            if al != "none":
                # alias-returning operator pair (the adjoint returns the dual variable itself)
                if al == "linop_identity":
                    A_raw = sp.linop.Identity(xshape)
                    AH_raw = A_raw.H
                elif al == "reshape":
                    A_raw = sp.linop.Reshape(ushape, xshape)
                    AH_raw = A_raw.H
                else:
                    A_raw = lambda v: v.reshape(ushape)  # noqa: E731
                    AH_raw = lambda v: v.reshape(xshape)  # noqa: E731
                stats["buggify.alias_returning_operator"] += 1
            Acb = common.Proxy("A", A_raw, ret if al == "none" else "fresh", stats, interfere=itf)
            AHcb = common.Proxy("AH", AH_raw, ret if al == "none" else "fresh", stats, interfere=itf)
            proxfc = common.Proxy("proxfc", proxfc_raw, ret, stats, interfere=itf)
            cargs = (proxfc, proxg, Acb, AHcb, x_caller, u_caller, tau_arg, sigma_arg)
            ckw = dict(gamma_primal=gp, gamma_dual=gd, max_iter=plan.get("max_iter", plan["K"] + 5), tol=0)
            if plan.get("call_style") == "positional":
                cargs, ckw = common.as_positional("PrimalDualHybridGradient", cargs, ckw)
                stats["buggify.positional_arguments"] += 1
            alg = common.lib_call("PrimalDualHybridGradient.__init__", -1, PrimalDualHybridGradient, *cargs, **ckw)
            site = "PrimalDualHybridGradient"
            STATE = PD_STATE
            if not accel:
                if isinstance(tau_arg, np.ndarray):
                    ledger.own("tau", tau_arg)
                if isinstance(sigma_arg, np.ndarray):
                    ledger.own("sigma", sigma_arg)
            Mc = M.astype(np.complex128)
            d_init = float(np.linalg.norm(x0.ravel() - xs.ravel()) + np.linalg.norm(u0.ravel() - us.ravel()))
            sscale = float(np.linalg.norm(xs) + np.linalg.norm(us) + np.linalg.norm(y) + 1e-3)
            xprev = [x0.ravel().astype(np.complex128).copy()]
            Dprev = [None]
            Dscale = [None]

            def mnorm2(dx, du):
                return float(np.real(np.vdot(dx, dx / T)) + np.real(np.vdot(du, du / S))
                             - 2 * np.real(np.vdot(du, Mc @ dx)))

            def judge(step):
                kk = st["k"]
                if alg.u is not u_caller:
                    raise Violation("dual_not_in_callers_array", site + ".update", step, {"k": kk})
                xk = x_caller.ravel().astype(np.complex128)
                uk = u_caller.ravel().astype(np.complex128)
                if not (np.all(np.isfinite(xk)) and np.all(np.isfinite(uk))):
                    raise Violation("nonfinite_iterate", site + ".update", step, {"k": kk})
                if k["start"] == "exact":
                    dev = float(np.linalg.norm(xk - xs.ravel()) + np.linalg.norm(uk - us.ravel()))
                    res.note_max("pdhg_fixed_point_over_tol", dev / (1e-7 * sscale))
                    if dev > 1e-7 * sscale:
                        raise Violation("saddle_point_not_fixed", site + ".update", step,
                                        {"k": kk, "dev": dev, "scale": sscale, "kkt": kres})
                if not accel:
                    D = mnorm2(xprev[0] - xs.ravel(), uk - us.ravel())
                    if Dprev[0] is None:
                        Dscale[0] = abs(D) + float(np.real(np.vdot(xs, xs / T)) + np.real(np.vdot(us, us / S))) + 1e-6 * float(np.min(1 / T) + np.min(1 / S))
                    else:
                        tolD = 1e-9 * Dscale[0]
                        res.note_max("pdhg_fejer_over_tol", (D - Dprev[0]) / tolD)
                        if D > Dprev[0] + tolD:
                            raise Violation("weighted_distance_increased", site + ".update", step,
                                            {"k": kk, "D": D, "D_prev": Dprev[0], "tol": tolD})
                    Dprev[0] = D
                xprev[0] = xk.copy()
                if kk == 2000 and k.get("long"):
                    err = float(np.linalg.norm(xk - xs.ravel()))
                    frac = 2e-3 if k["family"] == "spread" else 1e-1
                    res.note_max("pdhg_convergence_over_tol" + (".spread" if k["family"] == "spread" else ""),
                                 err / (frac * d_init + 1e-7 * sscale))
                    stats["probes.pdhg_long_run"] += 1
                    if err > frac * d_init + 1e-7 * sscale:
                        raise Violation("not_converged", site + ".update", step,
                                        {"k": kk, "err": err, "d_init": d_init, "gamma": gam})
                st["judged"] += 1
                if kk <= 40 or kk % 250 == 0:
                    trace.append({"a": "U", "k": kk, "ex": codec.fnum(np.linalg.norm(xk - xs.ravel()) / sscale, 5)})
            outs = [x_caller, u_caller]
            if accel and (isinstance(tau_arg, np.ndarray) or isinstance(sigma_arg, np.ndarray)):
                outs += [a_ for a_ in (tau_arg, sigma_arg) if isinstance(a_, np.ndarray)]
                stats["probes.pdhg_array_steps_rescaled_in_place"] += 1

        stats["steps"] += 1
        bad = ledger.verify(outputs=outs)
        if bad:
            raise Violation("ledger", site + ".__init__", -1, {"changed": bad})

        for step, a in enumerate(plan["schedule"]):
            if a == "U":
                acts.append("U")
                common.lib_call(site + ".update", step, alg.update)
                st["k"] += 1
                stats["steps"] += 1
                stats["updates"] += 1
                if alg.x is not x_caller:
                    raise Violation("solution_not_in_callers_array", site + ".update", step, {"k": st["k"]})
                bad = ledger.verify(outputs=outs)
                if bad:
                    raise Violation("ledger", site + ".update", step, {"changed": bad, "k": st["k"]})
                judge(step)
            else:
                acts.append(a)
                d0 = common.state_digest(alg, STATE)
                if a == "D":
                    val = bool(common.lib_call(site + ".done", step, alg.done))
                else:
                    val = codec.qdigest(alg.x.copy())
                stats["steps"] += 1
                if common.state_digest(alg, STATE) != d0:
                    raise Violation("query_changed_state", site + (".done" if a == "D" else ".x"), step, {"k": st["k"]})
                trace.append({"a": a, "v": val})
        res.nontrivial = st["judged"] > 0
        res.sim_time = float(st["k"])
        res.fingerprint = codec.json_digest([
            k["alg"], cplx, gk, k["family"], k["form"], k["ret"], bool(k.get("interfere")), bool(k.get("iterprox")), k.get("Aalias"), bool(k.get("views")), n, m, k["start"], k.get("c"),
            k.get("accelerate"), k.get("steps"), k.get("gamma"), k.get("long"), plan["K"],
            plan.get("max_iter", 0) < plan["K"],
            round(np.log10(plan["lam"])), round(2 * np.log10(k.get("sigma_rel", 1.0))),
            common.compress_actions(acts)[:40],
        ])

    # ---------------------------------------------------------------- shrink
    def shrink_candidates(self, plan, violation):
        if "history" in plan:
            return
        k = plan["knobs"]

        def mod(**kw):
            p = copy.deepcopy(plan)
            p["knobs"].update(kw)
            return p
        if k.get("ret") != "fresh":
            yield mod(ret="fresh")
        if k.get("interfere"):
            yield mod(interfere=False)
        if k.get("iterprox"):
            yield mod(iterprox=False)
        if k.get("form") != "closure":
            yield mod(form="closure")
        if k.get("long"):
            pass
        M = codec.dec(plan["M"])
        if np.iscomplexobj(M):
            p = mod(complex=False)
            for key in ("M", "y", "x0", "u0"):
                p[key] = codec.enc(np.real(codec.dec(plan[key])).copy())
            yield p
        n, m = plan["n"], plan["m"]
        if n > 1:
            p = copy.deepcopy(plan)
            p["n"] = n - 1
            p["M"] = codec.enc(M[:, : n - 1].copy())
            p["x0"] = codec.enc(codec.dec(plan["x0"])[: n - 1].copy())
            yield p
        if m > 1:
            p = copy.deepcopy(plan)
            p["m"] = m - 1
            p["M"] = codec.enc(M[: m - 1, :].copy())
            p["y"] = codec.enc(codec.dec(plan["y"])[: m - 1].copy())
            p["u0"] = codec.enc(codec.dec(plan["u0"])[: m - 1].copy())
            yield p
        for digits in (1, 2):
            p = copy.deepcopy(plan)
            for key in ("M", "y", "x0", "u0"):
                a = codec.dec(plan[key])
                p[key] = codec.enc(np.round(a, digits))
            p["lam"] = round(plan["lam"], digits + 1) or plan["lam"]
            if p != plan:
                yield p
        if k.get("steps") not in (None, "scalar"):
            yield mod(steps="scalar")
        if plan.get("max_iter", plan["K"] + 5) != plan["K"] + 5:
            p = copy.deepcopy(plan)
            p["max_iter"] = plan["K"] + 5
            yield p
        if k.get("gamma") not in (None, "none"):
            yield mod(gamma="none")
        if k.get("gkind") != "none":
            yield mod(gkind="none")


WORLD = PGWorld()
