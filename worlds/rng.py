"""World `rng` (property C18): histories of process-global numpy RNG use around
sigpy.mri.samp.poisson, in JIT mode (numba's private generator) and in
interpreter mode (NUMBA_DISABLE_JIT=1, where the very same lines reseed and
consume numpy's global generator and only the save/restore protects the
caller)."""
import copy
import os
import random

import numpy as np

from simkit import codec
from simkit.world import Result, Violation, World, mk_rng

from . import common


def state_digest():
    st = np.random.get_state()
    return codec.json_digest([st[0], codec.bytes_digest(st[1]), int(st[2]), int(st[3]), repr(float(st[4]))])


CONFLICT_SITE = "poisson[crop_corner=True, calibration block reaches the grid edge where r >= 1]"


def _crop_radius(ny, nx, cy, cx):
    """Normalised elliptical radius measured from the calibration region (the documented
    crop criterion is r < 1)."""
    yy, xx = np.mgrid[:ny, :nx]
    xr = np.maximum(np.abs(xx - nx / 2) - cx / 2, 0)
    xr = xr / xr.max()
    yr = np.maximum(np.abs(yy - ny / 2) - cy / 2, 0)
    yr = yr / yr.max()
    return np.sqrt(xr ** 2 + yr ** 2)


class CallBudgetExceeded(BaseException):
    """Raised by the counting seam around samp._poisson: a deterministic
    (count-based, not wall-clock) bound that turns a hang into a verdict."""


# A float bisection of [0, max(nx, ny)] ends after at most ~1075 + 53 halvings
# (it can only run down to the smallest subnormal); anything beyond is a hang.
CALL_BUDGET = 2500


class RngWorld(World):
    name = "rng"
    property_id = "C18"

    def warmup(self, config="default"):
        import sigpy.mri  # noqa

    _seeder = None

    def _seed_numba(self, k):
        if RngWorld._seeder is None:
            import numba as nb

            @nb.njit
            def seeder(s):
                np.random.seed(s)
            RngWorld._seeder = seeder
        RngWorld._seeder(k)

    # ------------------------------------------------------------------ plan
    def _argset(self, rng, small):
        if small:
            ny = rng.choice([16, 17, 18, 20])
            nx = rng.choice([16, 16, 18, 19])
        else:
            ny = rng.choice([16, 24, 31, 32, 40, 48, 64])
            nx = rng.choice([16, 20, 32, 33, 48, 64])
        accel = round(rng.choice([rng.uniform(1.2, 4), rng.uniform(2, 8), rng.uniform(4, 12)]), 2)
        if small:
            accel = max(accel, 2.2)  # interpreter mode: avoid the ~1100-call underflow path
        ck = rng.choice(["zero", "zero", "even", "odd", "big", "wide"])
        if ck == "zero":
            calib = [0, 0]
        elif ck == "even":
            calib = [rng.choice([2, 4, 6]), rng.choice([2, 4, 8])]
        elif ck == "odd":
            calib = [rng.choice([1, 3, 5]), rng.choice([3, 4, 7])]
        elif ck == "wide":
            # calibration block reaching towards the corners of the grid
            calib = [max(1, int(ny * rng.uniform(0.6, 0.95))), max(1, int(nx * rng.uniform(0.6, 0.95)))]
            accel = round(rng.uniform(1.2, 2.5), 2) if not small else max(2.2, accel)
        else:
            calib = [ny // 2, nx // 2]
        a = {
            "img_shape": [ny, nx], "accel": accel, "calib": calib,
            "tol": rng.choice([0.1, 0.1, 0.3, 0.05, 0.01, 1e-4]),
            "crop_corner": rng.random() < 0.6,
            "dtype": rng.choice(["complex128", "complex128", "float32", "float64", "int32", "bool"]),
            "max_attempts": rng.choice([30, 30, 10, 5]),
            "seed": rng.choice([0, 1, 7, 80, 12345, 2 ** 31 - 1, None]) if rng.random() < 0.9 else None,
        }
        if rng.random() < 0.08:
            a["accel"] = rng.choice([1.0, 0.5])  # rejected before anything happens
        elif rng.random() < 0.15:
            a["accel"] = int(max(2, round(a["accel"])))  # integer acceleration
        a["arg_types"] = rng.choice(["tuple", "tuple", "list", "numpy"])
        a["return_density"] = rng.random() < 0.15   # documented flag; must not change the mask
        return a

    def gen_plan(self, seed, tier, config="jit"):
        rng = mk_rng(self.name + ":" + config, seed)
        small = config == "nojit"
        pool = [self._argset(rng, small) for _ in range(rng.randint(1, 3))]
        # same geometry, different seed / tol / max_attempts: anything remembered per geometry
        # between calls would leak from one into the other
        if len(pool) > 1 and rng.random() < 0.6:
            for j in range(1, len(pool)):
                v = dict(pool[0])
                v["seed"] = rng.choice([s_ for s_ in [0, 1, 2, 3, 7, 80, 12345] if s_ != pool[0]["seed"]])
                if rng.random() < 0.4:
                    v["tol"] = rng.choice([0.05, 0.1, 0.2, 0.3])
                if rng.random() < 0.3:
                    v["max_attempts"] = rng.choice([5, 10, 30])
                pool[j] = v
        # the documented parameter order, by position (own generator: plans otherwise unchanged)
        r_cs = random.Random("rng-callstyle:%s:%d" % (config, seed))
        for a_ in pool:
            a_["call_style"] = r_cs.choice(["keyword"] * 4 + ["positional"])
        sched = []
        nact = rng.randint(4, 8) if small else rng.randint(6, 14)
        npoisson = 0
        cap = 3 if small else 8
        for _ in range(nact):
            r = rng.random()
            if r < 0.42 and npoisson < cap:
                sched.append({"op": "poisson", "args": rng.randrange(len(pool))})
                npoisson += 1
            elif r < 0.52:
                sched.append({"op": "seed", "k": rng.choice([0, 1, 42, 2 ** 32 - 1, rng.randrange(2 ** 32)])})
            elif r < 0.62:
                sched.append({"op": "random", "n": rng.choice([1, 2, 3, 600, 623, 624, 625])})
            elif r < 0.72:
                sched.append({"op": "normal", "n": rng.choice([1, 3, 5, 7])})
            elif r < 0.78:
                sched.append({"op": "shuffle", "n": rng.randint(2, 9)})
            elif r < 0.86:
                sched.append({"op": "set_state", "k": rng.randrange(2 ** 32), "pos": rng.choice([0, 1, 623, 624]),
                              "gauss": rng.random() < 0.5})
            elif r < 0.93:
                sched.append({"op": "sp_randn", "shape": [rng.randint(1, 4), rng.randint(1, 3)],
                              "complex": rng.random() < 0.5})
            else:
                sched.append({"op": "maxeig", "n": rng.randint(2, 4)})
        if npoisson == 0:
            sched.append({"op": "poisson", "args": 0})
        # make sure a repeat of an argument set happens later in the history
        if rng.random() < 0.7:
            first = next(a for a in sched if a["op"] == "poisson")
            sched.append({"op": "random", "n": 3})
            sched.append({"op": "poisson", "args": first["args"]})
        return {"world": self.name, "seed": seed, "config": config, "pool": pool, "schedule": sched,
                "faults": [], "knobs": {"config": config}}

    # --------------------------------------------------------------- execute
    def execute(self, plan):
        res = Result()
        try:
            self._run(plan, res)
        except Violation as v:
            res.violation = v.as_dict()
        return res

    def _run(self, plan, res):
        import sigpy as sp
        from sigpy.mri import samp

        stats = res.stats
        jit_off = os.environ.get("NUMBA_DISABLE_JIT") == "1"
        if (plan.get("config") == "nojit") != jit_off:
            raise RuntimeError("plan config %r needs NUMBA_DISABLE_JIT=%s" % (plan.get("config"), "1" if plan.get("config") == "nojit" else "unset"))
        np.random.seed(plan["seed"] % (2 ** 32))
        if not jit_off:
            # numba keeps a second, private generator (used by the compiled sampler when
            # seed=None): it is process-global state too, so the session seeds it
            self._seed_numba((plan["seed"] * 7919 + 13) % (2 ** 32))
        first = {}
        held = []  # masks already handed to the caller: (array, digest, step)
        acts = []
        judged = 0
        site = "poisson"
        for step, a in enumerate(plan["schedule"]):
            op = a["op"]
            acts.append(op[0] if op != "poisson" else "P")
            stats["steps"] += 1
            if op == "seed":
                np.random.seed(a["k"])
                res.trace.append({"a": "seed"})
            elif op == "random":
                v = np.random.random(a["n"])
                res.trace.append({"a": "random", "v": codec.bytes_digest(v)})
            elif op == "normal":
                v = np.random.standard_normal(a["n"])
                res.trace.append({"a": "normal", "v": codec.bytes_digest(v)})
            elif op == "shuffle":
                v = np.arange(a["n"])
                np.random.shuffle(v)
                res.trace.append({"a": "shuffle", "v": v.tolist()})
            elif op == "set_state":
                g = np.random.RandomState(a["k"])
                st = list(g.get_state())
                st[2] = a["pos"]
                if a["gauss"]:
                    st[3], st[4] = 1, 0.25
                np.random.set_state(tuple(st))
                res.trace.append({"a": "set_state"})
            elif op == "sp_randn":
                v = sp.util.randn(a["shape"], dtype=np.complex128 if a["complex"] else np.float64)
                res.trace.append({"a": "sp_randn", "v": codec.bytes_digest(v)})
            elif op == "maxeig":
                n = a["n"]
                mat = np.diag(np.arange(1.0, n + 1))
                v = sp.app.MaxEig(sp.linop.MatMul([n, 1], mat), max_iter=3, show_pbar=False).run()
                res.trace.append({"a": "maxeig", "v": codec.fnum(v)})
            elif op == "poisson":
                args = plan["pool"][a["args"]]
                before = state_digest()
                at = args.get("arg_types", "tuple")
                shape_arg = tuple(args["img_shape"])
                calib_arg = tuple(args["calib"])
                seed_arg = args["seed"]
                if at == "list":
                    shape_arg, calib_arg = list(shape_arg), list(calib_arg)
                elif at == "numpy":
                    shape_arg = tuple(np.int64(v) for v in shape_arg)
                    calib_arg = tuple(np.int64(v) for v in calib_arg)
                    if seed_arg is not None:
                        seed_arg = np.int64(seed_arg)
                kw = dict(calib=calib_arg, dtype=np.dtype(args["dtype"]).type if args["dtype"] != "bool" else bool,
                          crop_corner=args["crop_corner"], seed=seed_arg, max_attempts=args["max_attempts"],
                          tol=args["tol"])
                accel_arg = args["accel"]
                if at == "numpy":
                    # every argument as the numpy scalar a computed value would be
                    kw.update(crop_corner=np.bool_(args["crop_corner"]), max_attempts=np.int64(args["max_attempts"]),
                              tol=np.float64(args["tol"]))
                    accel_arg = np.float64(accel_arg)
                if args.get("return_density"):
                    kw["return_density"] = True
                inner = samp._poisson
                calls = {"n": 0}

                def counted(*aa, **kk):
                    calls["n"] += 1
                    if calls["n"] > CALL_BUDGET:
                        raise CallBudgetExceeded()
                    return inner(*aa, **kk)
                samp._poisson = counted
                try:
                    pargs, pkw = (shape_arg, accel_arg), kw
                    if args.get("call_style") == "positional":
                        pargs, pkw = common.as_positional("poisson", pargs, pkw)
                        stats["buggify.positional_arguments"] += 1
                    mask = samp.poisson(*pargs, **pkw)
                except CallBudgetExceeded:
                    raise Violation("poisson_does_not_terminate", site, step,
                                    {"args": args, "inner_calls": calls["n"], "jit": not jit_off})
                except ValueError as e:
                    stats["inner_calls"] += calls["n"]
                    stats["probes.rng_error_path"] += 1
                    if state_digest() != before:
                        stats["probes.rng_state_changed_on_error_path"] += 1
                    if args["accel"] <= 1:
                        stats["probes.rng_rejected_accel"] += 1
                    res.trace.append({"a": "poisson", "raised": str(e)[:40]})
                    continue
                except Exception as e:
                    raise Violation("library_raised", site, step, {"type": type(e).__name__, "msg": str(e)[:200], "args": args})
                finally:
                    samp._poisson = inner
                stats["inner_calls"] += calls["n"]
                res.note_max("bisection_calls_over_budget", calls["n"] / CALL_BUDGET)
                judged += 1
                after = state_digest()
                ny, nx = args["img_shape"]
                if args["accel"] <= 1:
                    raise Violation("accel_le_1_accepted", site, step, {"args": args})
                if args["seed"] is not None:
                    if after != before:
                        raise Violation("global_rng_state_changed", site, step, {"args": args, "jit": not jit_off})
                    key = codec.json_digest({kk: vv for kk, vv in args.items() if kk not in ("arg_types", "return_density", "call_style")})
                    dg = codec.bytes_digest(mask)
                    if key in first:
                        stats["probes.rng_repeat_compared"] += 1
                        if first[key] != dg:
                            raise Violation("mask_not_reproducible", site, step, {"args": args})
                    else:
                        first[key] = dg
                else:
                    stats["probes.rng_seed_none"] += 1
                if tuple(mask.shape) != (ny, nx):
                    raise Violation("mask_shape", site, step, {"shape": list(mask.shape), "args": args})
                if mask.dtype != np.dtype(args["dtype"]):
                    raise Violation("mask_dtype", site, step, {"dtype": mask.dtype.name, "args": args})
                m = np.asarray(mask)
                if not np.all((m == 0) | (m == 1)):
                    raise Violation("mask_not_binary", site, step, {"args": args})
                nsamp = float(np.sum(np.abs(m)))
                if nsamp == 0:
                    raise Violation("mask_empty", site, step, {"args": args})
                acc = ny * nx / nsamp
                res.note_max("accel_dev_over_tol", abs(acc - args["accel"]) / args["tol"])
                if abs(acc - args["accel"]) > args["tol"] * (1 + 1e-9):
                    raise Violation("accel_out_of_tolerance", site, step,
                                    {"actual": acc, "args": args})
                cy, cx = args["calib"]
                if cy > 0 and cx > 0:
                    ok = False
                    for r0 in {(ny - cy) // 2, -((cy - ny) // 2)}:
                        for c0 in {(nx - cx) // 2, -((cx - nx) // 2)}:
                            blk = m[r0:r0 + cy, c0:c0 + cx]
                            if blk.shape == (cy, cx) and np.all(blk == 1):
                                ok = True
                    stats["probes.rng_calib_checked"] += 1
                    if not ok:
                        csite = site
                        if args["crop_corner"]:
                            # the two clauses of the statement conflict where the library's own
                            # calibration block (int(n/2 - c/2) : int(n/2 + c/2)) contains points whose
                            # normalised radius is >= 1: the crop clause demands they be zero.  Only
                            # such points may be missing under the narrower site; anything else missing
                            # is reported under the plain site.
                            rr_ = _crop_radius(ny, nx, cy, cx)
                            r0, r1 = int(ny / 2 - cy / 2), int(ny / 2 + cy / 2)
                            c0, c1 = int(nx / 2 - cx / 2), int(nx / 2 + cx / 2)
                            blk = m[r0:r1, c0:c1]
                            if blk.shape == (cy, cx) and np.all((blk == 1) | (rr_[r0:r1, c0:c1] >= 1)):
                                csite = CONFLICT_SITE
                        if ("calibration_not_fully_sampled", csite) in getattr(self, "known", set()):
                            res.known_hits.append({"invariant": "calibration_not_fully_sampled", "site": csite,
                                                   "detail": codec.jsonable({"args": args})})
                            stats["probes.known_finding_hit"] += 1
                        else:
                            raise Violation("calibration_not_fully_sampled", csite, step, {"args": args})
                if args["crop_corner"]:
                    yy, xx = np.mgrid[:ny, :nx]
                    rr = _crop_radius(ny, nx, cy, cx)
                    stats["probes.rng_crop_checked"] += 1
                    if np.any((m != 0) & (rr >= 1)):
                        raise Violation("sample_outside_cropped_region", site, step, {"args": args})
                    # stricter geometric reading: probe only
                    ge = np.sqrt(((xx - nx / 2) / (nx / 2)) ** 2 + ((yy - ny / 2) / (ny / 2)) ** 2)
                    if np.any((m != 0) & (ge >= 1)):
                        stats["probes.rng_sample_outside_geometric_ellipse"] += 1
                res.trace.append({"a": "poisson", "mask": codec.bytes_digest(mask), "acc": codec.fnum(acc, 6)})
                held.append((mask, codec.bytes_digest(mask), step))
            # a mask that was handed to the caller earlier stays what it was
            for hm, hd, hs in held:
                if hs != step and codec.bytes_digest(hm) != hd:
                    raise Violation("earlier_mask_changed", site, step, {"returned_at_step": hs, "op": op})
        res.nontrivial = judged > 0
        res.sim_time = float(len(plan["schedule"]))
        res.fingerprint = codec.json_digest([
            plan.get("config"), common.compress_actions(acts),
            [[a["img_shape"], a["calib"], a["crop_corner"], a["dtype"], a["seed"] is None, a["tol"], a["max_attempts"]]
             for a in plan["pool"]]])

    def sample_view(self, plan):
        return {k: plan[k] for k in ("world", "seed", "config", "pool", "schedule")}

    def shrink_candidates(self, plan, violation):
        for i, a in enumerate(plan["pool"]):
            for key, simple in (("crop_corner", False), ("dtype", "complex128"), ("max_attempts", 30), ("tol", 0.1)):
                if a[key] != simple:
                    p = copy.deepcopy(plan)
                    p["pool"][i][key] = simple
                    yield p
            if a["calib"] != [0, 0]:
                p = copy.deepcopy(plan)
                p["pool"][i]["calib"] = [0, 0]
                yield p
            if a["img_shape"] != [16, 16]:
                p = copy.deepcopy(plan)
                p["pool"][i]["img_shape"] = [16, 16]
                yield p


WORLD = RngWorld()
