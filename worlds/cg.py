"""World `cg` (property C12): caller <-> sigpy.alg.ConjugateGradient <->
operator / preconditioner callbacks, with curvature faults injected at the A
callback. Oracles come from the dense Krylov reference (refmodels.krylov)."""
import copy
import random
from collections import Counter

import numpy as np

from refmodels import krylov
from simkit import codec
from simkit.ledger import Ledger
from simkit.world import Result, Violation, World, mk_rng

from . import common

STATE = ["x", "r", "p", "rzold", "resid", "iter", "not_positive_definite", "max_iter", "tol"]

# floors per precision: (krylov rel e0, krylov abs nx, monotone rel, resid c, rz c)
FLOORS = {
    "double": dict(k_rel=1e-9, k_abs=1e-10, mono_rel=1e-11, mono_abs=1e-10, res=1e-10, rz=1e-9),
    "single": dict(k_rel=2e-3, k_abs=2e-3, mono_rel=2e-3, mono_abs=2e-3, res=2e-3, rz=5e-3),
}


def _eigs(rng, fam, n):
    if fam == "identity":
        return [1.0] * n
    if fam == "loguniform":
        c = 10 ** rng.uniform(0, 3)
        e = [c ** rng.random() for _ in range(n)]
        e[0] = 1.0
        if n > 1:
            e[1] = c
        return e
    if fam == "few":
        m = rng.randint(1, max(1, min(n, 4)))
        vals = [10 ** rng.uniform(0, 2) for _ in range(m)]
        return [vals[rng.randrange(m)] for _ in range(n)]
    if fam == "clustered":
        m = rng.randint(1, 3)
        cents = [10 ** rng.uniform(0, 2.5) for _ in range(m)]
        return [cents[rng.randrange(m)] * (1 + 1e-3 * rng.uniform(-1, 1)) for _ in range(n)]
    raise ValueError(fam)


class CGWorld(World):
    name = "cg"
    property_id = "C12"

    def gen_plan(self, seed, tier, config="default"):
        rng = mk_rng(self.name, seed)
        g = common.np_gen(rng)
        k = {}
        k["klass"] = "fault" if rng.random() < 0.25 else "nofault"
        k["prec"] = "single" if rng.random() < 0.12 else "double"
        k["complex"] = rng.random() < 0.55
        n = rng.choice([1, 2, 2, 3, 3, 4, 5, 6, 7, 8, 9, 10, 11, 12])
        k["family"] = rng.choice(["loguniform", "loguniform", "few", "clustered", "identity"])
        k["Aform"] = rng.choice(["func", "func", "matmul", "compose", "matmul_direct"])
        if k["klass"] == "fault" and k["Aform"] == "matmul_direct":
            k["Aform"] = "matmul"
        k["Pkind"] = rng.choice(["none", "none", "jacobi", "hpd", "inverse", "identity"])
        k["Pform"] = rng.choice(["func", "linop"])
        if k["Aform"] == "func":
            shp = rng.choice(["vec", "col", "mat"])
        else:
            shp = "col"
        if shp == "vec":
            xshape = [n]
        elif shp == "col":
            xshape = [n, 1]
        else:
            divs = [d for d in range(1, n + 1) if n % d == 0]
            a = rng.choice(divs)
            xshape = [a, n // a]
        k["shape"] = shp
        k["A_ret"] = rng.choice(["fresh", "fresh", "fresh", "reuse", "noncontig"])
        k["P_ret"] = rng.choice(["fresh", "fresh", "fresh", "reuse", "noncontig"])
        k["bkind"] = rng.choice(["random", "random", "random", "zero", "eigvec"])
        k["interfere"] = rng.random() < 0.15
        k["x_narrow"] = rng.random() < 0.06
        k["views"] = rng.random() < 0.2
        k["x0kind"] = rng.choice(["zero", "zero", "random", "random", "exact"])
        cplx = k["complex"]
        dt = {("double", False): "float64", ("double", True): "complex128",
              ("single", False): "float32", ("single", True): "complex64"}[(k["prec"], cplx)]
        if k["prec"] == "single":
            k["x_narrow"] = False
        if k["prec"] == "single":
            # single precision: keep CG in its convergent regime (cond <= ~1e2, no dense preconditioner)
            if k["Pkind"] in ("hpd", "inverse"):
                k["Pkind"] = "jacobi"
            if k["x0kind"] == "exact":
                k["x0kind"] = "random"
        eigs = _eigs(rng, k["family"], n)
        if k["prec"] == "single":
            lo_e = min(eigs)
            eigs = [min(e, 100.0 * lo_e) for e in eigs]
        A, Q = common.hpd(g, n, cplx, eigs)
        plan = {"world": self.name, "seed": seed, "knobs": k, "n": n, "xshape": xshape, "dtype": dt}
        if k["Aform"] == "compose":
            # A = Q^H diag(d) Q  as  MatMul(Q).H * Multiply(d) * MatMul(Q)
            plan["Q"] = codec.enc(Q.conj().T.astype(dt))
            plan["d"] = codec.enc(np.asarray(eigs, dtype=np.float32 if k["prec"] == "single" else np.float64).reshape(n, 1))
            A = None
        else:
            plan["A"] = codec.enc(A.astype(dt))
        Ad = self._dense_A(plan)
        if k["bkind"] == "zero":
            b = np.zeros(n, dtype=dt)
        elif k["bkind"] == "eigvec":
            w, v = np.linalg.eigh(Ad)
            bv = v[:, rng.randrange(n)] * rng.uniform(0.5, 2)
            b = (bv if cplx else np.real(bv)).astype(dt)
        else:
            b = common.randn(g, (n,), cplx, dt)
        # the right-hand side stored narrower than the operator and the caller's x (single-precision
        # measurements, double-precision solve): legal, the recurrences run in the promoted type.
        # (own generator: the plans of all other sessions stay what they were)
        k["call_style"] = random.Random("cg-callstyle:%d" % seed).choice(["keyword"] * 7 + ["positional"] * 2 + ["minimal"])
        k["b_narrow"] = k["prec"] == "double" and not k["x_narrow"] and random.Random("cg-bnarrow:%d" % seed).random() < 0.08
        if k["b_narrow"]:
            b = b.astype(np.complex64 if cplx else np.float32)
        if k["x0kind"] == "zero":
            x0 = np.zeros(n, dtype=dt)
        elif k["x0kind"] == "exact":
            x0 = np.linalg.solve(Ad.astype(np.complex128), b.astype(np.complex128))
            x0 = (x0 if cplx else x0.real).astype(dt)
        else:
            x0 = common.randn(g, (n,), cplx, dt)
        plan["b"] = codec.enc(b.reshape(xshape))
        plan["x0"] = codec.enc(x0.reshape(xshape))
        pk = k["Pkind"]
        if pk == "jacobi":
            P = np.diag(1.0 / np.real(np.diag(Ad)))
        elif pk == "hpd":
            c = 10 ** rng.uniform(0, 2)
            pe = [c ** rng.random() for _ in range(n)]
            P, _ = common.hpd(g, n, cplx, pe)
        elif pk == "inverse":
            P = np.linalg.inv(Ad)
            P = (P + P.conj().T) / 2
        elif pk == "identity":
            P = np.eye(n)
        else:
            P = None
        if P is not None:
            plan["P"] = codec.enc((P if cplx else np.real(P)).astype(dt))
        else:
            plan["P"] = None
        plan["max_iter"] = rng.randint(1, n + 3)
        if rng.random() < 0.8:
            plan["tol"] = 0.0
        else:
            plan["tol"] = float(10 ** rng.uniform(-6, -1) * (np.linalg.norm(b) + 1e-3))
        # schedule
        mi = plan["max_iter"]
        sched = []
        style = rng.choice(["canonical", "interleaved", "interleaved", "overrun"])
        if style == "canonical":
            sched = ["L"]
        else:
            nu = rng.randint(0, mi + 2)
            for _ in range(nu):
                for _ in range(rng.randint(0, 2)):
                    sched.append(rng.choice(["D", "X", "R"]))
                sched.append("U")
            sched.append(rng.choice(["D", "X", "R"]))
            sched.append("L")
        if style == "overrun" or rng.random() < 0.2:
            sched += ["U"] * rng.randint(1, 2) + ["D"]
        plan["schedule"] = sched
        plan["faults"] = []
        if k["klass"] == "fault":
            plan["faults"].append({
                "seam": "A", "at_call": rng.randint(1, max(1, min(mi, n))),
                "kind": rng.choice(["neg", "zero", "indef"]),
            })
        return plan

    # ---------------------------------------------------------------- helpers
    @staticmethod
    def _dense_A(plan):
        if "A" in plan and plan["A"] is not None:
            return codec.dec(plan["A"]).astype(np.complex128)
        Q = codec.dec(plan["Q"]).astype(np.complex128)
        d = codec.dec(plan["d"]).astype(np.float64).ravel()
        return Q.conj().T @ (d[:, None] * Q)

    def sample_view(self, plan):
        v = {k: plan[k] for k in ("world", "seed", "knobs", "n", "xshape", "dtype", "max_iter", "tol", "schedule", "faults")}
        return v

    # ---------------------------------------------------------------- execute
    def execute(self, plan):
        res = Result()
        res.known_hits = []
        try:
            self._run(plan, res)
        except Violation as v:
            res.violation = v.as_dict()
        return res

    def _run(self, plan, res):
        import sigpy as sp
        from sigpy.alg import ConjugateGradient

        k = plan["knobs"]
        stats = res.stats
        n = plan["n"]
        xshape = list(plan["xshape"])
        dt = np.dtype(plan["dtype"])
        prec = "single" if dt in (np.dtype("float32"), np.dtype("complex64")) else "double"
        fl = FLOORS[prec]
        Ad = self._dense_A(plan)
        if not np.allclose(Ad, Ad.conj().T, atol=1e-6 * np.abs(Ad).max()):
            raise ValueError("plan matrix not Hermitian")
        w = np.linalg.eigvalsh((Ad + Ad.conj().T) / 2)
        if w[0] <= 0:
            raise ValueError("plan matrix not PD")
        cond = float(w[-1] / w[0])
        Ad = (Ad + Ad.conj().T) / 2
        b = codec.dec(plan["b"])
        x_caller = codec.dec(plan["x0"])
        narrow = bool(k.get("x_narrow")) and prec == "double"
        if narrow:
            # the caller's array is narrower than the data: legal (in-place updates round
            # to the caller's precision); only where the solution is written is judged
            x_caller = x_caller.astype(np.complex64 if np.iscomplexobj(x_caller) else np.float32)
            stats["buggify.x_narrower_than_b"] += 1
        if k.get("b_narrow"):
            stats["buggify.b_narrower_than_x"] += 1
        if k.get("views"):
            x_caller = common.as_view(x_caller)
            b = common.as_view(b)
            stats["buggify.caller_arrays_are_views"] += 1
        x0 = x_caller.copy()
        Pd = None
        if plan.get("P") is not None:
            Pm = codec.dec(plan["P"])
            Pd = Pm.astype(np.complex128)
            Pd = (Pd + Pd.conj().T) / 2
            if np.linalg.eigvalsh(Pd)[0] <= 0:
                raise ValueError("plan preconditioner not PD")
        ledger = Ledger()
        if random.Random("cg-readonly:%d" % plan["seed"]).random() < 0.15:
            # buggify: the caller's right-hand side is read-only
            b.flags.writeable = False
            stats["buggify.readonly_rhs"] += 1
        ledger.own("b", b)

        # ---- build A callback (real sigpy Linops where the plan says so)
        if k["Aform"] == "compose":
            Qm = codec.dec(plan["Q"])
            dm = codec.dec(plan["d"])
            ledger.own("Q", Qm)
            ledger.own("d", dm)
            Ql = sp.linop.MatMul(xshape, Qm)
            Alin = Ql.H * sp.linop.Multiply(Ql.oshape, dm) * Ql
            a_fn = Alin
        elif k["Aform"] in ("matmul", "matmul_direct"):
            Am = codec.dec(plan["A"])
            ledger.own("A", Am)
            Alin = sp.linop.MatMul(xshape, Am)
            a_fn = Alin
        else:
            Am = codec.dec(plan["A"])
            ledger.own("A", Am)

            def a_fn(v, Am=Am):
                return (Am @ v.reshape(n)).reshape(v.shape)

        if k["Aform"] == "matmul_direct":
            A_cb = a_fn
            Aproxy = None
        else:
            Aproxy = common.Proxy("A", a_fn, k.get("A_ret", "fresh"), stats, interfere=bool(k.get("interfere")))
            A_cb = Aproxy

        # ---- P callback
        P_cb = None
        if Pd is not None:
            ledger.own("P", Pm)
            if k.get("Pkind") == "identity" and k.get("Pform") == "linop":
                p_fn = sp.linop.Identity(xshape)  # alias-returning
            elif k.get("Pform") == "linop" and len(xshape) == 2 and xshape[1] == 1:
                p_fn = sp.linop.MatMul(xshape, Pm)
            else:
                def p_fn(v, Pm=Pm):
                    return (Pm @ v.reshape(n)).reshape(v.shape)
            P_cb = common.Proxy("P", p_fn, k.get("P_ret", "fresh"), stats, interfere=bool(k.get("interfere")))

        # ---- fault plan on the A seam
        fstate = {"active": False, "breakdown_expected": False, "first_fault_call": None}
        faults = [f for f in plan.get("faults", []) if f["seam"] == "A"]
        if faults and Aproxy is not None:
            f0 = min(faults, key=lambda f: f["at_call"])
            shift = float((w[0] + w[-1]) / 2)

            def fault(i, arg, out, f0=f0):
                if i < f0["at_call"]:
                    return None
                if not fstate["active"]:
                    fstate["active"] = True
                    fstate["first_fault_call"] = i
                kind = f0["kind"]
                if kind == "neg":
                    bad = -out
                elif kind == "zero":
                    bad = np.zeros_like(out)
                else:
                    bad = out - np.asarray(shift, dtype=out.real.dtype) * arg
                stats["faults_fired.A_" + kind] += 1
                curv = float(np.real(np.vdot(arg, bad)))
                fstate["last_curv"] = curv
                return bad

            Aproxy.fault = fault

        # ---- references
        xstar = np.linalg.solve(Ad, b.astype(np.complex128).ravel())
        kmax = plan["max_iter"]
        kopt, rank = krylov.krylov_optimal(Ad, Pd, b, x0, kmax)
        cdt = np.complex64 if prec == "single" else np.complex128
        rdt = dt
        ref, rzhist = krylov.textbook_pcg(Ad.astype(cdt) if np.iscomplexobj(np.empty(0, dt)) else np.real(Ad).astype(dt),
                                  None if Pd is None else (Pd.astype(cdt) if np.iscomplexobj(np.empty(0, dt)) else np.real(Pd).astype(dt)),
                                  b, x0, kmax, rdt)
        e0 = krylov.anorm(Ad, x0.astype(np.complex128).ravel() - xstar)
        nx = krylov.anorm(Ad, xstar) + krylov.anorm(Ad, x0.astype(np.complex128).ravel())
        dist_ref = [krylov.anorm(Ad, ref[j].astype(np.complex128) - kopt[j]) for j in range(kmax + 1)]
        normA = float(w[-1])
        normP = 1.0 if Pd is None else float(np.linalg.norm(Pd, 2))
        # The textbook run in the same precision tells where floating-point CG
        # itself stops being meaningful (recursive residual under/overflowing or
        # <r, P r> no longer positive): single-precision sessions are judged only
        # while the textbook run is healthy one step beyond the judged update.
        rzfloor = 1e-20 if prec == "single" else 1e-280
        healthy = 0
        if rzhist[0] == 0:
            healthy = kmax
        else:
            for j in range(kmax + 1):
                ok = np.isfinite(rzhist[j]) and rzhist[j] > rzfloor and np.all(np.isfinite(ref[j]))
                if not ok:
                    break
                healthy = j
            healthy = max(0, healthy - 1) if healthy < kmax else kmax

        # ---- construct the real solver
        cargs, ckw = (A_cb, b, x_caller), dict(P=P_cb, max_iter=plan["max_iter"], tol=plan["tol"])
        if k.get("call_style") == "positional":
            # the documented parameter order, by position
            cargs, ckw = common.as_positional("ConjugateGradient", cargs, ckw)
            stats["buggify.positional_arguments"] += 1
        elif k.get("call_style") == "minimal":
            # arguments equal to their documented default are left out
            ckw = {kk_: vv_ for kk_, vv_ in ckw.items()
                   if not ((kk_ == "P" and vv_ is None) or (kk_ == "tol" and vv_ == 0) or (kk_ == "max_iter" and vv_ == 100))}
            stats["buggify.defaults_left_out"] += 1
        alg = common.lib_call("ConjugateGradient.__init__", -1, ConjugateGradient, *cargs, **ckw)
        stats["steps"] += 1
        bad = ledger.verify(outputs=[x_caller])
        if bad:
            raise Violation("ledger", "ConjugateGradient.__init__", -1, {"changed": bad})
        if codec.bytes_digest(x_caller) != codec.bytes_digest(x0):
            raise Violation("x_written_by_constructor", "ConjugateGradient.__init__", -1, {})

        st = {
            "k": 0, "e_prev": e0, "broken": False, "x_at_break": None,
            "maxdist_ref": dist_ref[0], "maxxn": float(np.linalg.norm(x0)),
            "judged": 0,
        }
        trace = res.trace
        acts = []

        def done_(step):
            try:
                return common.lib_call("ConjugateGradient.done", step, alg.done)
            except Violation:
                if st["k"] >= healthy and not (rzhist[0] == 0):
                    stats["probes.cg_raised_in_rounding_regime"] += 1
                    return True
                raise

        def do_update(step):
            fault_before = fstate["active"]
            x_before = x_caller.copy()
            calls_before = Aproxy.calls if Aproxy is not None else None
            common.lib_call("ConjugateGradient.update", step, alg.update)
            st["k"] += 1
            kk = st["k"]
            stats["steps"] += 1
            stats["updates"] += 1
            if alg.x is not x_caller:
                raise Violation("solution_not_in_callers_array", "ConjugateGradient.update", step,
                                {"k": kk})
            badl = ledger.verify(outputs=[x_caller])
            if badl:
                raise Violation("ledger", "ConjugateGradient.update", step, {"changed": badl, "k": kk})
            xk = x_caller.astype(np.complex128).ravel()
            if narrow:
                if kk == 1 and e0 > 1e-3 * nx and codec.bytes_digest(x_caller) == codec.bytes_digest(x0) \
                        and not alg.not_positive_definite and not fstate["active"]:
                    raise Violation("solution_not_in_callers_array", "ConjugateGradient.update", step,
                                    {"k": kk, "why": "caller's (narrower) array unchanged after the first update"})
                trace.append({"a": "U", "k": kk, "narrow": True})
                return
            if kk > healthy and not st["broken"]:
                # floating-point CG itself is past its meaningful regime on this
                # instance (see `healthy` above): nothing is judged from here on
                stats["probes.cg_rounding_regime_unjudged"] += 1
                st["unjudged"] = True
                trace.append({"a": "U", "k": kk, "unjudged": True})
                return
            if st.get("unjudged"):
                return
            if not np.all(np.isfinite(xk)):
                raise Violation("nonfinite_iterate", "ConjugateGradient.update", step, {"k": kk})
            # -- breakdown bookkeeping (fault runs)
            curv_bad = fstate["active"] and fstate.get("last_curv", 1.0) <= 0
            if st["broken"] or curv_bad:
                if not st["broken"]:
                    st["broken"] = True
                    st["x_at_break"] = x_before
                    stats["probes.cg_breakdown_by_fault"] += 1
                if codec.bytes_digest(x_caller) != codec.bytes_digest(st["x_at_break"]):
                    raise Violation("breakdown_moves_solution", "ConjugateGradient.update", step,
                                    {"k": kk, "curv": fstate.get("last_curv")})
                if not done_(step):
                    raise Violation("breakdown_not_done", "ConjugateGradient.done", step, {"k": kk})
                rec = {"a": "U", "k": kk, "broken": True}
                trace.append(rec)
                return
            if fstate["active"] or fault_before:
                # wrong-but-positive curvature answers: solver cannot know;
                # only the fault-free prefix is judged against the reference.
                stats["probes.cg_fault_positive_curvature"] += 1
                trace.append({"a": "U", "k": kk, "faulty": True})
                return
            if kk > plan["max_iter"]:
                stats["probes.cg_update_past_max_iter"] += 1
                trace.append({"a": "U", "k": kk, "past": True})
                return
            # -- fault-free, within budget: judge
            st["judged"] += 1
            ek = krylov.anorm(Ad, xk - xstar)
            dist = krylov.anorm(Ad, xk - kopt[kk])
            st["maxdist_ref"] = max(st["maxdist_ref"], dist_ref[kk])
            tolk = fl["k_rel"] * e0 + fl["k_abs"] * nx + 1e5 * st["maxdist_ref"] + 1e-300
            res.note_max("krylov_dist_over_tol." + prec, dist / tolk)
            if dist > tolk:
                raise Violation("krylov_optimality", "ConjugateGradient.update", step,
                                {"k": kk, "dist": dist, "tol": tolk, "e0": e0, "dist_ref": dist_ref[kk], "cond": cond})
            tolm = fl["mono_rel"] * e0 + fl["mono_abs"] * nx + 1e5 * st["maxdist_ref"] + 1e-300
            res.note_max("mono_increase_over_tol." + prec, (ek - st["e_prev"]) / tolm)
            if ek > st["e_prev"] + tolm:
                raise Violation("anorm_error_increased", "ConjugateGradient.update", step,
                                {"k": kk, "e": ek, "e_prev": st["e_prev"], "tol": tolm})
            st["e_prev"] = ek
            st["maxxn"] = max(st["maxxn"], float(np.linalg.norm(xk)))
            if kk == n:
                stats["probes.cg_reached_n_updates"] += 1
                if ek > tolk:
                    raise Violation("finite_termination", "ConjugateGradient.update", step,
                                    {"k": kk, "e": ek, "tol": tolk})
            if kk >= rank and rank < n:
                stats["probes.cg_krylov_invariant_before_n"] += 1
            if kk < plan["max_iter"] and not alg.not_positive_definite:
                rtrue = b.astype(np.complex128).ravel() - Ad @ xk
                rr = alg.r.astype(np.complex128).ravel()
                tolr = fl["res"] * cond * (np.linalg.norm(b) + normA * st["maxxn"]) + 1e-300
                dr = float(np.linalg.norm(rr - rtrue))
                res.note_max("tracked_resid_over_tol." + prec, dr / tolr)
                if dr > tolr:
                    raise Violation("tracked_residual", "ConjugateGradient.update", step,
                                    {"k": kk, "diff": dr, "tol": tolr})
                z = rr if Pd is None else Pd @ rr
                rz = float(np.real(np.vdot(rr, z)))
                if isinstance(alg.resid, complex) or not np.isfinite(alg.resid):
                    raise Violation("resid_not_rz", "ConjugateGradient.update", step,
                                    {"k": kk, "resid": repr(alg.resid), "rz": rz})
                tolz = fl["rz"] * normP * (np.linalg.norm(rr) ** 2 + (fl["res"] * normA * st["maxxn"]) ** 2) + 1e-300
                res.note_max("resid_rz_over_tol." + prec, abs(alg.resid ** 2 - rz) / tolz)
                if abs(alg.resid ** 2 - rz) > tolz:
                    raise Violation("resid_not_rz", "ConjugateGradient.update", step,
                                    {"k": kk, "resid2": alg.resid ** 2, "rz": rz, "tol": tolz})
            elif alg.not_positive_definite:
                stats["probes.cg_natural_breakdown_flag"] += 1
            trace.append({"a": "U", "k": kk, "e": codec.fnum(ek / (e0 + 1e-300), 6),
                          "done": bool(done_(step))})

        def do_query(step, a):
            d0 = common.state_digest(alg, STATE)
            xd = codec.bytes_digest(x_caller)
            if a == "D":
                val = bool(done_(step))
            elif a == "X":
                val = codec.qdigest(alg.x.copy())
            else:
                val = codec.fnum(alg.resid, 6) if not isinstance(alg.resid, complex) else repr(alg.resid)
            stats["steps"] += 1
            if common.state_digest(alg, STATE) != d0 or codec.bytes_digest(x_caller) != xd:
                raise Violation("query_changed_state", "ConjugateGradient.%s" % {"D": "done", "X": "x", "R": "resid"}[a],
                                step, {"k": st["k"]})
            trace.append({"a": a, "v": val})

        for step, a in enumerate(plan["schedule"]):
            if a == "U":
                acts.append("U")
                do_update(step)
            elif a == "L":
                guard = 0
                while not done_(step):
                    acts.append("U")
                    do_update(step)
                    guard += 1
                    if guard > plan["max_iter"] + 5:
                        raise Violation("loop_exceeds_max_iter", "ConjugateGradient.done", step,
                                        {"updates": st["k"], "max_iter": plan["max_iter"]})
                trace.append({"a": "L", "k": st["k"]})
            else:
                acts.append(a)
                do_query(step, a)

        res.nontrivial = st["judged"] > 0 or st["broken"]
        res.sim_time = float(st["k"])
        res.fingerprint = codec.json_digest([
            k["klass"], prec, bool(k["complex"]), n, k["family"], k["Aform"], k["Pkind"], k.get("Pform"),
            k["shape"], k["bkind"], k["x0kind"], k.get("A_ret"), k.get("P_ret"), bool(k.get("interfere")),
            bool(k.get("x_narrow")), bool(k.get("b_narrow")), bool(k.get("views")), k.get("call_style"), plan["max_iter"],
            plan["tol"] > 0, [f["kind"] for f in plan.get("faults", [])], common.compress_actions(acts),
        ])
        if Aproxy is not None:
            stats["callbacks.A"] += Aproxy.calls
        if P_cb is not None:
            stats["callbacks.P"] += P_cb.calls

    # ------------------------------------------------------------------ shrink
    def shrink_candidates(self, plan, violation):
        k = plan["knobs"]
        # structural simplifications
        def mod(**kw):
            p = copy.deepcopy(plan)
            for a, b in kw.items():
                p["knobs"][a] = b
            return p
        if k.get("A_ret") != "fresh":
            yield mod(A_ret="fresh")
        if k.get("interfere"):
            yield mod(interfere=False)
        if k.get("P_ret") != "fresh":
            yield mod(P_ret="fresh")
        if plan.get("P") is not None:
            p = mod(Pkind="none")
            p["P"] = None
            yield p
        if k.get("Pform") == "linop":
            yield mod(Pform="func")
        if k["Aform"] != "func":
            p = mod(Aform="func")
            A = self._dense_A(plan)
            dt = np.dtype(plan["dtype"])
            p["A"] = codec.enc((A if dt.kind == "c" else A.real).astype(dt))
            p.pop("Q", None)
            p.pop("d", None)
            yield p
        if plan["tol"] != 0:
            p = copy.deepcopy(plan)
            p["tol"] = 0.0
            yield p
        if plan["max_iter"] > 1:
            p = copy.deepcopy(plan)
            p["max_iter"] -= 1
            yield p
        n = plan["n"]
        if k["Aform"] == "func" and n > 1:
            p = copy.deepcopy(plan)
            m = n - 1
            A = codec.dec(plan["A"])[:m, :m]
            p["A"] = codec.enc(A)
            p["n"] = m
            p["xshape"] = [m]
            p["knobs"]["shape"] = "vec"
            p["b"] = codec.enc(codec.dec(plan["b"]).ravel()[:m])
            p["x0"] = codec.enc(codec.dec(plan["x0"]).ravel()[:m])
            if plan.get("P") is not None:
                p["P"] = codec.enc(codec.dec(plan["P"])[:m, :m])
            p["max_iter"] = min(p["max_iter"], m + 3)
            yield p
        if k["Aform"] == "func" and plan["xshape"] != [n]:
            p = copy.deepcopy(plan)
            p["xshape"] = [n]
            p["knobs"]["shape"] = "vec"
            p["b"] = codec.enc(codec.dec(plan["b"]).ravel())
            p["x0"] = codec.enc(codec.dec(plan["x0"]).ravel())
            yield p
        dt = np.dtype(plan["dtype"])
        if dt.kind == "c" and k["Aform"] == "func":
            p = copy.deepcopy(plan)
            rd = "float32" if dt == np.dtype("complex64") else "float64"
            for key in ("A", "b", "x0", "P"):
                if plan.get(key) is not None:
                    p[key] = codec.enc(np.real(codec.dec(plan[key])).astype(rd))
            p["dtype"] = rd
            p["knobs"]["complex"] = False
            yield p
        if k["Aform"] == "func":
            for digits in (1, 2):
                p = copy.deepcopy(plan)
                for key in ("A", "b", "x0", "P"):
                    if plan.get(key) is not None:
                        a = codec.dec(plan[key])
                        p[key] = codec.enc(np.round(a, digits).astype(a.dtype))
                if p != plan:
                    yield p
            A = codec.dec(plan["A"])
            D = np.diag(np.diag(A))
            if not np.array_equal(A, D):
                p = copy.deepcopy(plan)
                p["A"] = codec.enc(D.astype(A.dtype))
                yield p
            x0 = codec.dec(plan["x0"])
            if np.any(x0 != 0):
                p = copy.deepcopy(plan)
                p["x0"] = codec.enc(np.zeros_like(x0))
                yield p


WORLD = CGWorld()
