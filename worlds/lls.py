"""World `lls` (property C14): caller <-> LinearLeastSquares App, with the
process-global RNG (default step sizes draw a power-iteration start vector),
the App.run clock and the progress stream simulated.

Oracle: the documented objective 1/2||Ax-y||^2 + g(Gx) + lamda/2||x-z||^2,
evaluated by the harness from its own dense matrices, at the returned x is
within tolerance of a KKT-certified optimum; unsupported combinations raise;
ledger over y, z and captured arrays after every update; twin runs under a
different RNG history and under absorbed stream faults."""
import copy
import random

import numpy as np

from refmodels.minimisers import Composite, NoCertificate
from simkit import codec
from simkit.ledger import Ledger
from simkit.seams import InjectedCallbackFault, Seams, SimClock, SimStream
from simkit.world import Discard, Result, Violation, World, mk_rng

from . import common

SOLVERS = [None, "ConjugateGradient", "GradientMethod", "PrimalDualHybridGradient", "ADMM"]
BUDGET = {"ConjugateGradient": None, "GradientMethod": 4000, "PrimalDualHybridGradient": 5000, "ADMM": 1500}


def dft_matrix(n):
    eye = np.eye(n)
    return np.fft.fftshift(np.fft.fft(np.fft.ifftshift(eye, axes=0), axis=0, norm="ortho"), axes=0)


def dense_A(spec):
    """Dense matrix (acting on the C-order flattened input) of the operator
    described by spec - built from definitions, not from sigpy."""
    k = spec["kind"]
    ish = spec["ishape"]
    n = int(np.prod(ish))
    if k == "dense":
        return codec.dec(spec["mat"]).astype(np.complex128)
    if k in ("identity", "reshape"):
        return np.eye(n, dtype=np.complex128)
    if k == "transpose":
        a, b = ish
        P = np.zeros((n, n))
        for i in range(a):
            for j in range(b):
                P[j * a + i, i * b + j] = 1
        return P.astype(np.complex128)
    if k == "multiply":
        return np.diag(codec.dec(spec["mult"]).astype(np.complex128).ravel())
    if k == "fftmult":
        return dft_matrix(n) @ np.diag(codec.dec(spec["mult"]).astype(np.complex128).ravel())
    if k == "resize":
        m = spec["m"]
        R = np.zeros((m, n))
        oshift = m // 2 - n // 2
        for i in range(n):
            R[oshift + i, i] = 1
        return R.astype(np.complex128)
    if k == "blocks":
        b, s = spec["blk"], spec["stride"]
        nb = (n - b + s) // s
        B = np.zeros((nb * b, n))
        for j in range(nb):
            for t in range(b):
                B[j * b + t, j * s + t] = 1
        return B.astype(np.complex128)
    raise ValueError(k)


def dense_G(gspec, ishape):
    n = int(np.prod(ishape))
    if gspec["kind"] == "dense":
        return codec.dec(gspec["mat"]).astype(np.complex128)
    # finite difference along axis 0 of [n] or [n, 1]: (Gx)_i = x_i - x_{i-1} (circular)
    S = np.roll(np.eye(n), 1, axis=0)
    return (np.eye(n) - S).astype(np.complex128)


def reference(Ad, y, gk, lam_g, lo, hi, Gd, gkindG, lam2, z):
    """(x*, F*) of 1/2||Ad x - y||^2 + g(Gd x) + lam2/2||x - z||^2, certified."""
    n = Ad.shape[1]
    zz = np.zeros(n, dtype=np.complex128) if z is None else z.astype(np.complex128).ravel()
    if Gd is None or gk == "none":
        P = Composite(Ad, y, gk, lam_g, lo, hi, lam2=lam2, z=zz)
        x, F, r = P.solve()
        return x, F
    if gkindG == "dense":
        Ginv = np.linalg.inv(Gd)
        Ms = np.vstack([Ad @ Ginv, np.sqrt(lam2) * Ginv])
        ys = np.concatenate([y.ravel(), np.sqrt(lam2) * zz])
        P = Composite(Ms, ys, gk, lam_g, lo, hi)
        v, F, r = P.solve()
        return Ginv @ v, F
    # finite differences
    H = Ad.conj().T @ Ad + lam2 * np.eye(n)
    c = Ad.conj().T @ y.ravel() + lam2 * zz
    if gk == "l2":
        Hh = H + lam_g * Gd.conj().T @ Gd
        x = np.linalg.solve(Hh, c)
        return x, None
    if gk == "l1":
        if np.iscomplexobj(y) and np.max(np.abs(np.imag(y))) > 0:
            raise NoCertificate("complex TV unsupported")
        Hr = np.real(H)
        w, V = np.linalg.eigh(Hr)
        if w[0] <= 1e-10 * w[-1]:
            raise NoCertificate("singular H")
        Hmh = (V / np.sqrt(w)) @ V.T
        Md = Hmh @ np.real(Gd).T
        yd = Hmh @ np.real(c)
        P = Composite(Md, yd, "box", lo=-lam_g, hi=lam_g)
        u, _, r = P.solve(cert=1e-12)
        x = np.linalg.solve(Hr, np.real(c) - np.real(Gd).T @ u)
        gx = np.real(Gd) @ x
        comp = float(np.sum(lam_g * np.abs(gx) - gx * u))
        if abs(comp) > 1e-9 * (lam_g * np.sum(np.abs(gx)) + 1e-12) + 1e-12:
            raise NoCertificate("complementarity %g" % comp)
        return x.astype(np.complex128), None
    raise NoCertificate("unsupported reference combination")


def caused_by_injected_fault(e):
    """True if an InjectedCallbackFault is anywhere in the cause chain (Linop.apply wraps
    every exception in a RuntimeError per nesting level)."""
    seen = 0
    while e is not None and seen < 20:
        if isinstance(e, InjectedCallbackFault):
            return True
        e = e.__cause__ or e.__context__
        seen += 1
    return False


def make_flaky(sp, inner, state):
    """Linop wrapper whose k-th application (counted over the operator, its adjoint and
    every operator derived from them) raises once."""
    L = sp.linop

    class Flaky(L.Linop):
        def __init__(self, op):
            self.op = op
            super().__init__(op.oshape, op.ishape, repr_str="Flaky(%s)" % op.repr_str)

        def _apply(self, input):
            i = state["calls"]
            state["calls"] += 1
            if i == state["at"] and state["armed"]:
                state["fired"] += 1
                raise InjectedCallbackFault("operator failed (application %d)" % i)
            return self.op(input)

        def _adjoint_linop(self):
            return Flaky(self.op.H)

        def _normal_linop(self):
            return Flaky(self.op.N)
    return Flaky(inner)


def mid_at_of(r):
    b = r.get("budget") or 0
    return b - max(1, b // 5) if b > 50 else -1


def _envelope_contracts(r, mid_at, gapfn, gap_final):
    """Budget exhausted with a gap above tolerance: is the run still converging in the sense that
    the largest gap seen over the last fifth of the budget is at most 70 % of the largest gap seen
    over the fifth before it?  (The single mid-point comparison misjudges spiralling primal-dual
    iterates, whose gap can sit in a trough at the mid-point and on a crest at the end.)"""
    late = r.get("x_late") or []
    if mid_at <= 0 or len(late) < 4:
        return False
    a = [gapfn(x_) for n_, x_ in late if n_ <= mid_at]
    b = [gapfn(x_) for n_, x_ in late if n_ > mid_at] + [gap_final]
    if not a or not all(np.isfinite(v) for v in a + b):
        return False
    return max(b) < 0.7 * max(a)


class LLSWorld(World):
    name = "lls"
    property_id = "C14"

    def warmup(self, config="default"):
        common.warm_jit()

    # ------------------------------------------------------------------ plan
    def gen_plan(self, seed, tier, config="default"):
        rng = mk_rng(self.name, seed)
        g = common.np_gen(rng)
        k = {}
        cplx = rng.random() < 0.45
        k["solver"] = rng.choice(SOLVERS + ["PrimalDualHybridGradient", "ADMM"])
        k["Akind"] = rng.choice(["dense", "dense", "identity", "reshape", "transpose", "multiply", "fftmult", "resize",
                                 "blocks_tile", "blocks_overlap"])
        k["gkind"] = rng.choice(["none", "none", "l1", "l1", "l2", "box"])
        k["Gkind"] = rng.choice(["none", "none", "none", "dense", "fd"])
        k["lamda"] = rng.choice([0, 0, round(10 ** rng.uniform(-1.5, 0.5), 3)])
        k["z"] = rng.random() < 0.4
        k["z_scalar"] = k["z"] and rng.random() < 0.25   # documented: "z (float or array)"
        k["save_obj"] = rng.random() < 0.2                # objective() evaluated after every update
        k["views"] = rng.random() < 0.25                  # y, z and the initial x are strided views of larger caller arrays
        k["xgiven"] = rng.choice(["none", "zeros", "random"])
        k["P"] = rng.random() < 0.3
        k["Pkind"] = rng.choice(["jacobi", "jacobi", "identity", "multiply_one"])
        k["steps_given"] = rng.random() < 0.4
        k["accelerate"] = rng.random() < 0.7
        k["rho"] = rng.choice([1, 1, 0.5, 2.0])
        k["show_pbar"] = rng.random() < 0.5
        k["unsupported"] = False
        # reference-solvability constraints
        if k["Gkind"] == "fd":
            cplx = False
            if k["gkind"] == "box":
                k["gkind"] = "l1"
        if k["gkind"] == "box":
            cplx = False
        k["complex"] = cplx
        # supported vs deliberately unsupported combinations
        if rng.random() < 0.08:
            k["unsupported"] = True
            if rng.random() < 0.5:
                k["solver"] = "ConjugateGradient"
                if k["gkind"] == "none":
                    k["gkind"] = "l1"
            else:
                k["solver"] = "GradientMethod"
                if k["Gkind"] == "none":
                    k["Gkind"] = "dense"
                if k["gkind"] == "none":
                    k["gkind"] = "l1"
        else:
            if k["solver"] == "ConjugateGradient":
                k["gkind"] = "none"
            if k["solver"] == "GradientMethod":
                k["Gkind"] = "none"
            if k["solver"] is None and k["gkind"] == "none":
                pass  # -> CG
        n = rng.randint(1, 5)
        ak = k["Akind"]
        A = {"kind": ak}
        if ak == "dense":
            m = rng.randint(n, 7)
            q1 = common.rand_unitary(g, m, cplx)[:, :n]
            q2 = common.rand_unitary(g, n, cplx)
            c = rng.uniform(1, 30)
            sv = [c ** rng.random() for _ in range(n)]
            mat = (q1 * np.asarray(sv)) @ q2.conj().T * rng.uniform(0.3, 1.5)
            if not cplx:
                mat = np.real(mat)
            A.update(mat=codec.enc(np.round(mat, 4)), ishape=[n, 1])
        elif ak in ("identity", "reshape"):
            A.update(ishape=[n] if ak == "identity" or rng.random() < 0.5 else [n, 1])
            if ak == "reshape":
                A["oshape"] = [1, int(np.prod(A["ishape"]))]
        elif ak == "transpose":
            a_, b_ = rng.randint(1, 3), rng.randint(1, 3)
            n = a_ * b_
            A.update(ishape=[a_, b_])
        elif ak in ("multiply", "fftmult"):
            d = np.round((0.4 + np.abs(common.randn(g, (n,), False))) * np.exp(1j * (g.uniform(0, 6.28, n) if cplx else 0)), 4)
            if not cplx:
                d = np.real(d) * np.sign(g.standard_normal(n) + 1e-9)
            A.update(mult=codec.enc(d), ishape=[n])
            if ak == "fftmult":
                cplx = True
                k["complex"] = True
                if k["gkind"] == "box":
                    k["gkind"] = "l1"
                if k["Gkind"] == "fd":
                    k["Gkind"] = "none"
        elif ak == "resize":
            A.update(ishape=[n], m=n + rng.randint(0, 3))
        else:
            n = max(n, 2)
            b_ = rng.randint(1, n)
            if ak == "blocks_tile":
                divs = [d for d in range(1, n + 1) if n % d == 0]
                b_ = rng.choice(divs)
                s_ = b_
            else:
                b_ = rng.randint(2, n) if n >= 2 else 1
                s_ = rng.randint(1, max(1, b_ - 1))
                # make sure every entry is covered
                while (n - b_) % s_ != 0:
                    s_ -= 1
            A.update(ishape=[n], blk=b_, stride=s_, kind="blocks")
        n = int(np.prod(A["ishape"]))
        Ad = dense_A(A)
        m = Ad.shape[0]
        y = np.round(common.randn(g, (m,), k["complex"]), 4)
        # observations stored as integers (counts, quantised images).  Own generators for the
        # newer knobs, so the plans of all other sessions stay what they were.
        r_int = random.Random("lls-yint:%d" % seed)
        k["y_int"] = None
        if not k["complex"] and r_int.random() < 0.07:
            k["y_int"] = r_int.choice(["uint8", "uint8", "uint16", "int16", "int64"])
            y = np.round(3 * y)
            if k["y_int"].startswith("u"):
                y = np.abs(y)
            y = y.astype(k["y_int"])
        plan = {"world": self.name, "seed": seed, "knobs": k, "A": A, "n": n, "m": m, "y": codec.enc(y)}
        plan["lam_g"] = round(10 ** rng.uniform(-1.5, 0.3), 3)
        plan["lo"], plan["hi"] = -0.3, 0.6
        if k["z"]:
            if k["z_scalar"]:
                plan["z"] = codec.enc(np.full((n,), round(rng.uniform(-1, 1), 3)))
            else:
                plan["z"] = codec.enc(np.round(common.randn(g, (n,), k["complex"]), 4))
        if k["xgiven"] == "random":
            plan["x0"] = codec.enc(np.round(common.randn(g, (n,), k["complex"]), 4))
            # a common warm start: the adjoint reconstruction A^H y (for identity-like A this is
            # exactly the minimiser of the data term).  Own generator, see above.
            if not k.get("y_int") and random.Random("lls-x0kind:%d" % seed).random() < 0.3:
                k["x0kind"] = "adjoint"
                plan["x0"] = codec.enc(Ad.conj().T @ np.asarray(y, dtype=np.complex128) if k["complex"]
                                       else np.real(Ad.conj().T @ np.asarray(y, dtype=np.complex128)))
        k["call_style"] = random.Random("lls-callstyle:%d" % seed).choice(["keyword"] * 5 + ["positional"])
        if k["Gkind"] == "dense":
            q = common.rand_unitary(g, n, k["complex"])
            q2 = common.rand_unitary(g, n, k["complex"])
            c = rng.uniform(1, 8)
            sv = [c ** rng.random() for _ in range(n)]
            Gm = (q * np.asarray(sv)) @ q2.conj().T
            if not k["complex"]:
                Gm = np.real(Gm)
            plan["G"] = {"kind": "dense", "mat": codec.enc(np.round(Gm, 4))}
            form = random.Random("lls-gform:%d" % seed).choice(["matmul", "matmul", "matmul", "identity", "flip", "reshape"])
            if form != "matmul":
                # an invertible G whose Linop hands back its argument or a view of it
                ish_ = list(A["ishape"])
                eye = np.eye(n).reshape([n] + ish_)
                pm = (eye[:, ::-1] if form == "flip" else eye).reshape(n, n).T
                plan["G"] = {"kind": "dense", "mat": codec.enc(pm), "form": form}
            elif len(A["ishape"]) == 1 or A["ishape"][-1] != 1:
                # MatMul needs a column: only usable when x is [n, 1]
                if A["kind"] in ("identity", "reshape"):
                    A["ishape"] = [n, 1]
                    if A["kind"] == "reshape":
                        A["oshape"] = [1, n]
                elif A["kind"] != "dense":
                    plan["G"] = None
                    k["Gkind"] = "none"
        elif k["Gkind"] == "fd":
            if len(A["ishape"]) == 2 and A["ishape"][1] != 1:
                k["Gkind"] = "none"
                plan["G"] = None
            else:
                plan["G"] = {"kind": "fd"}
        else:
            plan["G"] = None
        if k["unsupported"] and k["solver"] == "GradientMethod" and plan["G"] is None:
            k["unsupported"] = False
        plan["rng"] = {"seed": rng.randrange(2 ** 31), "burn": rng.randint(0, 5), "twin_seed": rng.randrange(2 ** 31)}
        plan["twin"] = rng.choice(["none", "none", "rng", "stream"])
        # an earlier app built around the *same* operator objects (alternating schemes
        # rebuild LinearLeastSquares around one A): anything remembered on the operator leaks
        plan["prev"] = None
        if rng.random() < 0.3:
            same = k["solver"] if k["solver"] in ("GradientMethod", "PrimalDualHybridGradient", "ConjugateGradient") else "GradientMethod"
            plan["prev"] = {"solver": rng.choice([same, same, "GradientMethod", "PrimalDualHybridGradient", "ConjugateGradient"]),
                            "lamda": rng.choice([0, 0, 0.05, 3.0, 25.0]), "max_iter": rng.choice([1, 3, 10])}
            if rng.random() < 0.4:
                # a much stronger ridge than in the earlier solve
                k["lamda"] = round(rng.uniform(2.0, 30.0), 2)
        plan["clock"] = {"start": 1.7e9, "incs": [round(rng.uniform(1e-4, 0.2), 4) for _ in range(3)], "jumps": {}}
        plan["faults"] = []
        if k["show_pbar"] and rng.random() < 0.4:
            plan["faults"].append({"seam": "stream", "at_write": rng.randint(0, 40), "kind": rng.choice(["eio", "closed", "short"])})
        if rng.random() < 0.15:
            plan["faults"].append({"seam": "clock", "at_read": rng.randint(0, 50), "delta": rng.choice([-3600.0, 86400.0])})
        if not k["unsupported"] and rng.random() < 0.12:
            # the forward operator fails once in the middle of the run; the caller catches the
            # error and calls run() again
            plan["faults"].append({"seam": "operator", "at_call": rng.randint(2, 40)})
        # sometimes the caller steps and polls the algorithm inside the app before run()
        plan["pre"] = rng.choice([[], [], [], ["U", "D"], ["D", "D"], ["U", "D", "D"], ["U", "R"]])
        plan["schedule"] = ["RUN"]
        return plan

    def sample_view(self, plan):
        return {"world": self.name, "seed": plan["seed"], "knobs": plan["knobs"], "A": {kk: v for kk, v in plan["A"].items() if not codec.is_enc(v)},
                "n": plan["n"], "m": plan["m"], "G": None if not plan.get("G") else plan["G"]["kind"], "faults": plan["faults"],
                "twin": plan["twin"], "lam_g": plan["lam_g"]}

    # --------------------------------------------------------------- execute
    def execute(self, plan):
        res = Result()
        try:
            self._run(plan, res)
        except Violation as v:
            res.violation = v.as_dict()
        except Discard as d:
            res.discarded = d.why
        finally:
            self._cleanup_tqdm()
        return res

    @staticmethod
    def _cleanup_tqdm():
        import tqdm.std

        for inst in list(getattr(tqdm.std.tqdm, "_instances", [])):
            try:
                inst.close()
            except Exception:
                pass
        try:
            tqdm.std.tqdm._instances.clear()
        except Exception:
            pass

    def _flag(self, res, inv, site, step, detail):
        if (inv, site) in getattr(self, "known", set()):
            res.known_hits.append({"invariant": inv, "site": site, "detail": codec.jsonable(detail)})
            res.stats["probes.known_finding_hit"] += 1
            return True
        raise Violation(inv, site, step, detail)

    def _build(self, plan, ledger):
        import sigpy as sp

        k = plan["knobs"]
        A = plan["A"]
        ish = list(A["ishape"])
        n = plan["n"]
        kind = A["kind"]
        L = sp.linop
        if kind == "dense":
            mat = codec.dec(A["mat"])
            ledger.own("A.mat", mat)
            Aop = L.MatMul(ish, mat)
        elif kind == "identity":
            Aop = L.Identity(ish)
        elif kind == "reshape":
            Aop = L.Reshape(A["oshape"], ish)
        elif kind == "transpose":
            Aop = L.Transpose(ish)
        elif kind == "multiply":
            mult = codec.dec(A["mult"])
            ledger.own("A.mult", mult)
            Aop = L.Multiply(ish, mult)
        elif kind == "fftmult":
            mult = codec.dec(A["mult"])
            ledger.own("A.mult", mult)
            Aop = L.FFT(ish) * L.Multiply(ish, mult)
        elif kind == "resize":
            Aop = L.Resize([A["m"]], ish)
        elif kind == "blocks":
            Aop = L.ArrayToBlocks(ish, [A["blk"]], [A["stride"]])
        else:
            raise ValueError(kind)
        dt = np.complex128 if k["complex"] else np.float64

        def as_view(a):
            if not k.get("views") or a.ndim == 0:
                return a
            big = np.zeros(a.shape[:-1] + (a.shape[-1] * 2,), dtype=a.dtype)
            big[..., ::2] = a
            return big[..., ::2]
        y = codec.dec(plan["y"])
        if not k.get("y_int"):
            y = y.astype(dt)
        y = as_view(y.reshape(Aop.oshape))
        # buggify: the caller's data arrays are read-only (memory-mapped measurements): a library
        # that only reads them never notices, one that writes raises
        ro = random.Random("lls-readonly:%d" % plan["seed"]).random() < 0.2
        if ro:
            y.flags.writeable = False
        ledger.own("y", y)
        kw = {}
        if plan.get("z") is not None:
            z = codec.dec(plan["z"]).astype(dt).reshape(ish)
            if k.get("z_scalar"):
                kw["z"] = float(np.real(z.ravel()[0]))
            else:
                z = as_view(z)
                if ro:
                    z.flags.writeable = False
                ledger.own("z", z)
                kw["z"] = z
        Gop = None
        if plan.get("G"):
            if plan["G"]["kind"] == "dense":
                form = plan["G"].get("form", "matmul")
                if form == "identity":
                    Gop = L.Identity(ish)
                elif form == "flip":
                    Gop = L.Flip(ish, axes=[0])
                elif form == "reshape":
                    Gop = L.Reshape(ish, ish)
                else:
                    gm = codec.dec(plan["G"]["mat"]).astype(dt)
                    ledger.own("G.mat", gm)
                    Gop = L.MatMul(ish, gm)
            else:
                Gop = L.FiniteDifference(ish, axes=[0])
            kw["G"] = Gop
        gshape = Gop.oshape if Gop is not None else ish
        gk = k["gkind"]
        if gk == "l1":
            kw["proxg"] = sp.prox.L1Reg(gshape, plan["lam_g"])
        elif gk == "l2":
            kw["proxg"] = sp.prox.L2Reg(gshape, plan["lam_g"])
        elif gk == "box":
            kw["proxg"] = sp.prox.BoxConstraint(gshape, plan["lo"], plan["hi"])
        x_caller = None
        if k["xgiven"] == "zeros":
            x_caller = as_view(np.zeros(ish, dtype=dt))
        elif k["xgiven"] == "random":
            x_caller = as_view(codec.dec(plan["x0"]).astype(dt).reshape(ish))
        if x_caller is not None:
            kw["x"] = x_caller
        return Aop, y, kw, x_caller, Gop

    def _one_run(self, plan, res, rng_seed, stream_faults, clock_spec, judge_ledger=True):
        """Build and run one LinearLeastSquares app under the seams; returns
        dict(x=..., raised=..., updates=...)."""
        import sigpy as sp

        k = plan["knobs"]
        stats = res.stats
        ledger = Ledger()
        Ad = dense_A(plan["A"])
        normA2 = float(np.linalg.norm(Ad, 2) ** 2)
        lam = k["lamda"]
        solver = k["solver"]
        n = plan["n"]
        clock = SimClock(clock_spec)
        stream = SimStream(stream_faults)
        out = {"x": None, "raised": None, "updates": 0, "x_caller": None, "injected": None}
        out["fstate"] = None
        np.random.seed(rng_seed)
        for _ in range(plan["rng"]["burn"]):
            np.random.standard_normal(3)
        ofaults = [f for f in plan["faults"] if f["seam"] == "operator"] if judge_ledger else []
        fstate = {"calls": 0, "at": ofaults[0]["at_call"] if ofaults else -1, "armed": bool(ofaults), "fired": 0}
        out["fstate"] = fstate
        with Seams(clock, stream):
            Aop, y, kw, x_caller, Gop = self._build(plan, ledger)
            if ofaults:
                Aop = make_flaky(sp, Aop, fstate)
            out["x_caller"] = x_caller
            prev = plan.get("prev")
            if prev:
                # an earlier, unrelated solve that shares the operator objects
                try:
                    pkw = {}
                    if prev["solver"] != "ConjugateGradient" and "proxg" in kw and not (prev["solver"] == "GradientMethod" and Gop is not None):
                        pkw["proxg"] = kw["proxg"]
                    if Gop is not None and prev["solver"] == "PrimalDualHybridGradient":
                        pkw["G"] = Gop
                    sp.app.LinearLeastSquares(Aop, y.copy(), lamda=prev["lamda"], solver=prev["solver"],
                                              max_iter=prev["max_iter"], show_pbar=False, **pkw).run()
                    stats["buggify.operator_shared_with_earlier_app"] += 1
                except Exception as e:
                    stats["probes.previous_app_raised"] += 1
            eff = solver
            if eff is None:
                eff = "ConjugateGradient" if "proxg" not in kw else ("GradientMethod" if Gop is None else "PrimalDualHybridGradient")
            budget = BUDGET.get(eff)
            if budget is None:
                budget = n + 5
            out["budget"] = budget
            opts = dict(lamda=lam, solver=solver, max_iter=budget, show_pbar=k["show_pbar"],
                        accelerate=k["accelerate"], rho=k["rho"], max_cg_iter=30, max_power_iter=30)
            if k.get("save_obj"):
                gk_, lg_ = k["gkind"], plan["lam_g"]
                opts["save_objective_values"] = True
                if gk_ == "l1":
                    opts["g"] = lambda v: lg_ * float(np.sum(np.abs(v)))
                elif gk_ == "l2":
                    opts["g"] = lambda v: 0.5 * lg_ * float(np.real(np.vdot(v, v)))
                elif gk_ == "box":
                    opts["g"] = lambda v: 0.0
            if k["steps_given"]:
                Gd = dense_G(plan["G"], plan["A"]["ishape"]) if plan.get("G") else None
                nK2 = normA2 + (float(np.linalg.norm(Gd, 2) ** 2) if Gd is not None else 0.0)
                opts["alpha"] = 1.0 / (normA2 + lam)
                opts["sigma"] = 1.0
                opts["tau"] = 1.0 / nK2
            if k["P"] and eff in ("ConjugateGradient", "ADMM"):
                dg = np.real(np.diag(Ad.conj().T @ Ad)) + lam + (k["rho"] if eff == "ADMM" else 0)
                pm = (1.0 / dg).reshape(plan["A"]["ishape"])
                ledger.own("P.mult", pm)
                pk_ = k.get("Pkind", "jacobi")
                if pk_ == "identity":
                    opts["P"] = sp.linop.Identity(plan["A"]["ishape"])   # returns its input
                elif pk_ == "multiply_one":
                    opts["P"] = sp.linop.Multiply(plan["A"]["ishape"], 1)  # scalar 1 short-circuits
                else:
                    opts["P"] = sp.linop.Multiply(plan["A"]["ishape"], pm)
            try:
                cargs, ckw = (Aop, y), dict(kw, **opts)
                if k.get("call_style") == "positional":
                    cargs, ckw = common.as_positional("LinearLeastSquares", cargs, ckw)
                    stats["buggify.positional_arguments"] += 1
                app = sp.app.LinearLeastSquares(*cargs, **ckw)
            except Exception as e:
                if caused_by_injected_fault(e):
                    stats["probes.operator_fault_in_constructor"] += 1
                    out["injected"] = "InjectedCallbackFault"
                    return out
                if getattr(e, "injected", False):
                    out["injected"] = type(e).__name__
                    return out
                out["raised"] = e
                return out
            bad = ledger.verify(outputs=[x_caller] if x_caller is not None else [])
            if bad and judge_ledger:
                self._flag(res, "caller_array_modified", "LinearLeastSquares.__init__", -1, {"changed": bad, "solver": eff})
                for b in bad:
                    ledger.refresh(b)
            alg = app.alg
            orig_update = alg.update
            cnt = {"n": 0, "flagged": False}

            mid_at = budget - max(1, budget // 5) if budget > 50 else -1
            late_every = budget // 25 if budget > 50 else 0
            late_from = budget - 2 * (budget // 5)

            def counting_update():
                orig_update()
                cnt["n"] += 1
                if cnt["n"] == mid_at:
                    out["x_mid"] = np.array(app.x, copy=True)
                if late_every and cnt["n"] >= late_from and cnt["n"] % late_every == 0:
                    # snapshots over the last two fifths of the budget (primal-dual iterates spiral:
                    # their objective gap is not monotone, only its envelope is)
                    out.setdefault("x_late", []).append((cnt["n"], np.array(app.x, copy=True)))
                if judge_ledger and not cnt["flagged"] and (cnt["n"] <= 50 or cnt["n"] % 97 == 0):
                    badl = ledger.verify(outputs=[app.x])
                    if badl:
                        cnt["flagged"] = True
                        self._flag(res, "caller_array_modified", "LinearLeastSquares." + eff, cnt["n"],
                                   {"changed": badl, "update": cnt["n"], "A": plan["A"]["kind"]})
            alg.update = counting_update
            if judge_ledger or True:
                for a_ in plan.get("pre", []):
                    try:
                        if a_ == "U":
                            if not alg.done():
                                alg.update()
                                out["pre_updates"] = out.get("pre_updates", 0) + 1
                        elif a_ == "D":
                            alg.done()
                        elif a_ == "R":
                            getattr(alg, "resid", None)
                    except Exception as e:
                        if not caused_by_injected_fault(e):
                            out["raised"] = e
                        break
                if plan.get("pre"):
                    stats["buggify.caller_polls_algorithm_before_run"] += 1
            xr = None
            try:
              for attempt in range(3):
                try:
                    xr = app.run()
                    break
                except Violation:
                    raise
                except Exception as e:
                    if caused_by_injected_fault(e):
                        # transient operator failure: the caller resumes the same app
                        stats["faults_fired.operator_raise_once"] += 1
                        out["resumed"] = True
                        continue
                    if getattr(e, "injected", False):
                        out["injected"] = type(e).__name__
                    else:
                        out["raised"] = e
                    xr = None
                    break
            finally:
                del alg.update
            out["updates"] = cnt["n"]
            out["x"] = xr
            out["app"] = app
            out["eff"] = eff
            if judge_ledger and xr is not None:
                badl = ledger.verify(outputs=[app.x])
                if badl and not cnt["flagged"]:
                    self._flag(res, "caller_array_modified", "LinearLeastSquares." + eff, cnt["n"],
                               {"changed": badl, "update": cnt["n"], "A": plan["A"]["kind"]})
            for kf, c in stream.fired.items():
                stats["faults_fired.stream_" + kf] += c
            stats["faults_fired.clock_jump"] += clock.jumps_fired
            res.sim_time += clock.elapsed
        stats["updates"] += cnt["n"]
        stats["steps"] += cnt["n"] + 1
        return out

    def _run(self, plan, res):
        k = plan["knobs"]
        stats = res.stats
        Ad = dense_A(plan["A"])
        n = plan["n"]
        y = codec.dec(plan["y"]).astype(np.complex128).ravel()
        z = codec.dec(plan["z"]).astype(np.complex128).ravel() if plan.get("z") is not None else None
        lam = float(k["lamda"])
        gk = k["gkind"]
        Gd = dense_G(plan["G"], plan["A"]["ishape"]) if plan.get("G") else None
        gkG = plan["G"]["kind"] if plan.get("G") else None
        lam_g, lo, hi = plan["lam_g"], plan["lo"], plan["hi"]

        def F(xv, slack=False):
            xv = np.asarray(xv).astype(np.complex128).ravel()
            r = Ad @ xv - y
            v = 0.5 * float(np.real(np.vdot(r, r)))
            if lam > 0:
                d = xv - (z if z is not None else 0)
                v += 0.5 * lam * float(np.real(np.vdot(d, d)))
            gx = Gd @ xv if Gd is not None else xv
            if gk == "l1":
                v += lam_g * float(np.sum(np.abs(gx)))
            elif gk == "l2":
                v += 0.5 * lam_g * float(np.real(np.vdot(gx, gx)))
            return v

        unsupported = k["unsupported"]
        sfaults = [{"at_write": f["at_write"], "kind": f["kind"]} for f in plan["faults"] if f["seam"] == "stream"]
        cspec = copy.deepcopy(plan["clock"])
        for f in plan["faults"]:
            if f["seam"] == "clock":
                cspec["jumps"][str(f["at_read"])] = f["delta"]
        site_base = "LinearLeastSquares"
        r1 = self._one_run(plan, res, plan["rng"]["seed"], sfaults, cspec)
        if r1["injected"]:
            stats["probes.run_aborted_by_propagating_stream_fault"] += 1
            res.nontrivial = True
            res.fingerprint = codec.json_digest(["aborted", k["solver"], plan["A"]["kind"]])
            return
        eff = r1.get("eff") or (k["solver"] or "auto")
        site = site_base + "." + str(eff)
        if unsupported:
            stats["probes.unsupported_combination"] += 1
            res.nontrivial = True
            res.fingerprint = codec.json_digest(["unsupported", k["solver"], gk, gkG, plan["A"]["kind"]])
            if r1["raised"] is not None:
                stats["probes.unsupported_rejected"] += 1
                res.trace.append({"a": "RUN", "raised": type(r1["raised"]).__name__})
                return
            # returned normally: judged against F* like any other run (below)
        elif r1["raised"] is not None and k.get("y_int"):
            # "combinations a solver cannot handle raise an error": integer observations are
            # either rejected or solved, never silently reinterpreted
            stats["probes.integer_y_rejected"] += 1
            res.nontrivial = True
            res.fingerprint = codec.json_digest(["int_y_rejected", k["solver"], gk, gkG, plan["A"]["kind"], k["y_int"]])
            res.trace.append({"a": "RUN", "raised": type(r1["raised"]).__name__})
            return
        elif r1["raised"] is not None:
            e = r1["raised"]
            self._flag(res, "library_raised", site, 0,
                       {"type": type(e).__name__, "msg": str(e)[:200], "cause": repr(getattr(e, "__cause__", None))[:200],
                        "A": plan["A"]["kind"], "G": gkG, "g": gk, "lamda": lam})
            res.nontrivial = True
            res.fingerprint = codec.json_digest(["raised", k["solver"], gk, gkG, plan["A"]["kind"]])
            return
        # ---- reference
        try:
            xs, Fs = reference(Ad, y, gk, lam_g, lo, hi, Gd, gkG, lam, z)
        except NoCertificate as e:
            stats["probes.reference_discarded"] += 1
            raise Discard("no_certificate:%s:%s" % (gk, gkG))
        Fs = F(xs)
        F0 = F(np.zeros(n))
        xr = r1["x"]
        if r1["x_caller"] is not None and xr is not r1["x_caller"]:
            raise Violation("result_not_callers_array", site, 0, {})
        if not isinstance(xr, np.ndarray) or xr.size != n:
            raise Violation("result_shape", site, 0, {"type": type(xr).__name__})
        xv = xr.astype(np.complex128).ravel()
        if not np.all(np.isfinite(xv)):
            raise Violation("result_not_finite", site, 0, {})
        tol = 1e-6 * (F0 - Fs + 1.0)
        infeas = 0.0
        gap = F(xv) - Fs
        # local slope of the smooth part at the returned point (the l2 term is lamda/2 |x - z|^2)
        Lg = (float(np.linalg.norm(Ad.conj().T @ (Ad @ xv - y)))
              + lam * float(np.linalg.norm(xv - (z if z is not None else 0))) + 1.0)
        gap_eff = gap
        if gk == "box":
            def _infeas(v):
                g_ = np.real(Gd @ v) if Gd is not None else np.real(v)
                return float(np.max(np.maximum(g_ - hi, 0) + np.maximum(lo - g_, 0)))
            infeas = _infeas(xv)
            # ADMM/PDHG return the unprojected primal variable: its distance to the box shrinks with
            # the iteration budget like the objective gap does.  Out of budget and still closing in
            # on the box is slow, not wrong; a gross distance is wrong whatever the trend.
            scale_ = 1 + float(np.max(np.abs(xs)))
            closing = False
            if r1.get("x_mid") is not None and r1["updates"] >= BUDGET.get(eff, 0):
                closing = infeas < 0.7 * _infeas(np.asarray(r1["x_mid"]).astype(np.complex128).ravel())
            if infeas > 1e-3 * scale_ or (infeas > 1e-5 * scale_ and not closing):
                self._flag(res, "constraint_violated", site, 0, {"infeasibility": infeas, "A": plan["A"]["kind"], "G": gkG})
            # an infeasible point may undercut F*: the gap is judged at the nearby feasible point
            # G^-1 clip(G x) (box problems are real with G absent or invertible)
            def _feasible_gap(v):
                v = np.asarray(v).astype(np.complex128).ravel()
                g_ = np.clip(np.real(Gd @ v) if Gd is not None else np.real(v), lo, hi)
                vp = np.linalg.solve(Gd, g_.astype(np.complex128)) if Gd is not None else g_.astype(np.complex128)
                return max(F(v) - Fs, F(vp) - Fs)
            gap_eff = _feasible_gap(xv)
        res.note_max("objective_gap_over_tol." + str(eff), gap / tol)
        still_converging = False
        if gap_eff > tol and r1.get("x_mid") is not None and r1["updates"] >= BUDGET.get(eff, 0):
            # The fixed iteration budget ran out. A run that is still contracting its gap by
            # 30 % over the last fifth of the budget is slow (ill-conditioned instance), not
            # wrong: wrong formulas stall at a wrong point or diverge.
            gap_mid = F(r1["x_mid"]) - Fs
            if np.isfinite(gap_mid) and gap_mid > 0 and gap < 0.7 * gap_mid:
                still_converging = True
            elif gk == "box":
                # (an iterate just outside the box has a negative raw gap: compare like with like)
                gem = _feasible_gap(r1["x_mid"])
                still_converging = bool(np.isfinite(gem) and gem > 0 and gap_eff < 0.7 * gem)
            if not still_converging and _envelope_contracts(r1, mid_at_of(r1), _feasible_gap if gk == "box" else (lambda v: F(v) - Fs), gap_eff):
                still_converging = True
                stats["probes.budget_exhausted_envelope_still_contracting"] += 1
            if still_converging:
                stats["probes.budget_exhausted_still_converging"] += 1
                res.note_max("unjudged_gap_over_tol." + str(eff), gap / tol)
        if still_converging:
            pass
        elif gap_eff > tol or gap < -tol - Lg * infeas * 10:
            self._flag(res, "not_the_documented_minimiser", site, 0,
                       {"gap": gap, "tol": tol, "F_ret": F(xv), "F_star": Fs, "F0": F0, "A": plan["A"]["kind"], "G": gkG,
                        "g": gk, "lamda": lam, "z": z is not None, "updates": r1["updates"], "steps_given": k["steps_given"],
                        "dist": float(np.linalg.norm(xv - xs))})
        res.trace.append({"a": "RUN", "updates": r1["updates"], "gap": codec.fnum(gap / (F0 - Fs + 1.0), 4)})
        app1 = r1.get("app")
        if k.get("save_obj") and app1 is not None and getattr(app1, "objective_values", None):
            # the app's own record of the documented objective must agree with the harness
            stats["probes.objective_values_compared"] += 1
            ov = app1.objective_values
            Fh = F(xv)
            if len(ov) != r1["updates"] - r1.get("pre_updates", 0) + 1 and not r1.get("resumed"):
                self._flag(res, "objective_values_length", site, 0, {"len": len(ov), "updates": r1["updates"]})
            elif len(ov) >= 2 and (not np.isfinite(ov[-1]) or abs(ov[-1] - Fh) > 1e-9 * (abs(Fh) + 1)):
                self._flag(res, "objective_value_differs_from_documented_objective", site, 0,
                           {"app": float(ov[-1]), "harness": Fh, "g": gk, "G": gkG, "lamda": lam, "z": z is not None})
        # ---- twins
        if plan["twin"] == "rng":
            r2 = self._one_run(plan, res, plan["rng"]["twin_seed"], [], plan["clock"], judge_ledger=False)
            stats["probes.twin_rng_history"] += 1
            if r2["x"] is not None:
                gap2 = F(r2["x"]) - Fs
                slow2 = False
                if gap2 > tol and r2.get("x_mid") is not None:
                    gm2 = F(r2["x_mid"]) - Fs
                    slow2 = bool(np.isfinite(gm2) and gm2 > 0 and gap2 < 0.7 * gm2)
                    if not slow2:
                        slow2 = _envelope_contracts(r2, mid_at_of(r2), lambda v: F(v) - Fs, gap2)
                if gap2 > tol and not slow2 and not still_converging:
                    self._flag(res, "answer_depends_on_rng_history", site, 0, {"gap": gap2, "tol": tol})
        elif (plan["twin"] == "stream" and (sfaults or cspec["jumps"]) and not r1.get("resumed")
              and not (r1.get("fstate") or {}).get("fired")):
            # (an operator fault that fired anywhere in the first run - also inside the earlier
            # app sharing the operator, or a caller poll before run() - is not an absorbed fault:
            # the twin, which has no operator fault, legitimately takes a different path)
            r2 = self._one_run(plan, res, plan["rng"]["seed"], [], plan["clock"], judge_ledger=False)
            stats["probes.twin_fault_free"] += 1
            if r2["x"] is not None and codec.bytes_digest(r2["x"]) != codec.bytes_digest(xr):
                self._flag(res, "result_depends_on_absorbed_faults", site, 0, {})
        res.nontrivial = True
        res.fingerprint = codec.json_digest([
            k["solver"], eff, plan["A"]["kind"], gk, gkG, lam > 0, z is not None, k["xgiven"], k["P"], k["steps_given"],
            k["accelerate"], k["rho"], k["complex"], k["show_pbar"], plan["twin"], n, bool(plan.get("prev")),
            bool(k.get("z_scalar")), bool(k.get("save_obj")), bool(k.get("views")), k.get("Pkind") if k["P"] else None,
            "".join(plan.get("pre", [])), k.get("y_int"), (plan.get("G") or {}).get("form"), k.get("x0kind"), k.get("call_style"),
            [(f["seam"], f.get("kind", "jump")) for f in plan["faults"]]])

    # ---------------------------------------------------------------- shrink
    def shrink_candidates(self, plan, violation):
        k = plan["knobs"]

        def mod(**kw):
            p = copy.deepcopy(plan)
            p["knobs"].update(kw)
            return p
        if plan["faults"]:
            p = copy.deepcopy(plan)
            p["faults"] = []
            yield p
        if plan.get("prev"):
            p = copy.deepcopy(plan)
            p["prev"] = None
            yield p
        if plan.get("pre"):
            p = copy.deepcopy(plan)
            p["pre"] = []
            yield p
        if plan["twin"] != "none":
            p = copy.deepcopy(plan)
            p["twin"] = "none"
            yield p
        if k["show_pbar"]:
            yield mod(show_pbar=False)
        if k["P"]:
            yield mod(P=False)
        if k["xgiven"] != "none":
            yield mod(xgiven="none")
        if not k["steps_given"]:
            yield mod(steps_given=True)
        if k["z"]:
            p = mod(z=False)
            p["z"] = None
            yield p
        if k["lamda"] != 0:
            yield mod(lamda=0)
        if plan.get("G"):
            p = mod(Gkind="none")
            p["G"] = None
            yield p
        if k["gkind"] != "none" and not (k["solver"] in (None,)):
            yield mod(gkind="none")
        if k["rho"] != 1:
            yield mod(rho=1)
        for key in ("y", "z", "x0"):
            if plan.get(key) is not None:
                a = codec.dec(plan[key])
                r = np.round(a, 1)
                if not np.array_equal(a, r):
                    p = copy.deepcopy(plan)
                    p[key] = codec.enc(r)
                    yield p


WORLD = LLSWorld()
