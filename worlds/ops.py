"""World `ops` (property C02): sessions over a shared pool of caller-owned
buffers, operator objects (with lazily cached .H / .N children shared between
trees exactly as in user code), prox objects and array functions.

Oracles after every step: buffer ledger (no caller-owned array - input,
captured parameter, earlier output - ever changes), re-application determinism,
C-linearity probes with complex scalars, advertised output shape."""
import copy

import numpy as np

from simkit import codec
from simkit.ledger import Ledger
from simkit.world import Result, Violation, World, mk_rng

from . import common, opgen


def sig(spec):
    k = spec.get("k")
    if k == "leaf":
        return spec["cls"]
    if k in ("compose", "add", "sub", "hstack", "vstack", "diag"):
        return "%s(%s)" % (k, ",".join(sig(s) for s in spec["ops"]))
    if k in ("neg", "conj", "H", "N", "scale"):
        return "%s(%s)" % (k, sig(spec["op"]))
    if k == "ref":
        return "ref"
    return "?"


def top_site(spec):
    k = spec.get("k")
    return {"leaf": spec.get("cls"), "compose": "Compose", "add": "Add", "sub": "Add", "hstack": "Hstack",
            "vstack": "Vstack", "diag": "Diag", "neg": "Compose", "conj": "Conj", "scale": "Compose",
            "H": "H", "N": "N", "ref": "ref"}.get(k, "?")


class Env:
    def __init__(self, ledger, stats):
        self.ledger = ledger
        self.stats = stats
        self.nparams = 0
        self.kinds = set()
        self.ops = []  # pool: dict(op, spec, params)
        self.cur_params = None
        self.memo = {}

    def array(self, a):
        key = codec.json_digest(a["arr"])
        if key in self.memo:
            v = self.memo[key]
            self.stats["buggify.parameter_array_shared_between_operators"] += 1
            self.kinds.add(a["arr"].get("kind", "c128"))
            if self.cur_params is not None:
                self.cur_params.append(v)
            return v
        v = opgen.realise_array(a["arr"])
        self.memo[key] = v
        self.ledger.own("param%d" % self.nparams, v)
        self.nparams += 1
        self.kinds.add(a["arr"].get("kind", "c128"))
        if self.cur_params is not None:
            self.cur_params.append(v)
        return v



def _axes_arg(p):
    ax = p.get("axes")
    if ax is not None and p.get("axes_tuple"):
        return tuple(ax)
    return ax

def build_op(spec, env):
    import sigpy as sp
    from sigpy import linop as L

    k = spec["k"]
    if k == "ref":
        return env.ops[spec["i"] % len(env.ops)]["op"]
    if k == "compose":
        a, b = [build_op(s, env) for s in spec["ops"]]
        return a * b
    if k == "add":
        a, b = [build_op(s, env) for s in spec["ops"]]
        return a + b
    if k == "sub":
        a, b = [build_op(s, env) for s in spec["ops"]]
        return a - b
    if k == "neg":
        return -build_op(spec["op"], env)
    if k == "scale":
        a = complex(*spec["a"])
        if a.imag == 0 and spec["a"][1] == 0 and (spec["a"][0] == int(spec["a"][0])):
            a = float(a.real)
        op = build_op(spec["op"], env)
        return a * op if spec["side"] == "l" else op * a
    if k == "conj":
        return L.Conj(build_op(spec["op"], env))
    if k == "H":
        return build_op(spec["op"], env).H
    if k == "N":
        return build_op(spec["op"], env).N
    if k == "hstack":
        return L.Hstack([build_op(s, env) for s in spec["ops"]], axis=spec["axis"])
    if k == "vstack":
        return L.Vstack([build_op(s, env) for s in spec["ops"]], axis=spec["axis"])
    if k == "diag":
        return L.Diag([build_op(s, env) for s in spec["ops"]], oaxis=spec["oaxis"], iaxis=spec["iaxis"])
    assert k == "leaf", k
    cls, ish, p = spec["cls"], list(spec["ishape"]), spec["p"]
    A = env.array
    if cls == "Identity":
        return L.Identity(ish)
    if cls in ("FFT", "IFFT"):
        return getattr(L, cls)(ish, axes=p.get("axes"), center=p.get("center", True))
    if cls == "Multiply":
        if "scalar" in p:
            re, im = p["scalar"]
            mult = complex(re, im) if im != 0 else float(re)
            st_ = p.get("scalar_type", "python")
            if mult == 1.0 and st_ == "python":
                mult = 1
            elif re == int(re) and im == 0 and st_ == "python" and re in (0, 2):
                mult = int(re)
            elif st_ == "np64":
                mult = np.complex128(mult) if im != 0 else np.float64(mult)
            elif st_ == "np32":
                mult = np.complex64(mult) if im != 0 else np.float32(mult)
                env.kinds.add("c64")
            elif st_ == "zero_d":
                mult = np.array(mult)
                env.ledger.own("param%d" % env.nparams, mult)
                env.nparams += 1
        else:
            mult = A(p["mult"])
        return L.Multiply(ish, mult, conj=p.get("conj", False))
    if cls == "Circshift":
        return L.Circshift(ish, p["shift"], axes=_axes_arg(p))
    if cls == "Flip":
        return L.Flip(ish, axes=_axes_arg(p))
    if cls == "Resize":
        return L.Resize(p["oshape"], ish, ishift=p.get("ishift"), oshift=p.get("oshift"))
    if cls == "MatMul":
        return L.MatMul(ish, A(p["mat"]), adjoint=p.get("adjoint", False))
    if cls == "RightMatMul":
        return L.RightMatMul(ish, A(p["mat"]), adjoint=p.get("adjoint", False))
    if cls == "Reshape":
        return L.Reshape(p["oshape"], ish)
    if cls == "Transpose":
        return L.Transpose(ish, axes=p.get("axes"))
    if cls == "Downsample":
        return L.Downsample(ish, p["factors"], shift=p.get("shift"))
    if cls == "Slice":
        if p.get("bare"):
            a_, b_, c_ = p["idx"][0]
            return L.Slice(ish, slice(a_, b_, c_))
        return L.Slice(ish, tuple(slice(a, b, c) for a, b, c in p["idx"]))
    if cls == "Sum":
        return L.Sum(ish, p["axes"])
    if cls == "Tile":
        return L.Tile(p["oshape"], p["axes"])
    if cls == "FiniteDifference":
        return L.FiniteDifference(ish, axes=_axes_arg(p))
    if cls == "ArrayToBlocks":
        return L.ArrayToBlocks(ish, p["blk_shape"], p["blk_strides"])
    if cls == "Interpolate":
        return L.Interpolate(ish, A(p["coord"]), kernel=p["kernel"], width=p["width"], param=p["param"])
    if cls == "NUFFT":
        return L.NUFFT(ish, A(p["coord"]), oversamp=p["oversamp"], width=p["width"], toeplitz=p["toeplitz"])
    if cls == "Wavelet":
        return L.Wavelet(ish, axes=_axes_arg(p), wave_name=p["wave_name"], level=p.get("level"))
    if cls == "ConvolveData":
        return L.ConvolveData(ish, A(p["filt"]), mode=p["mode"], strides=p.get("strides"), multi_channel=p["multi_channel"])
    if cls == "ConvolveFilter":
        return L.ConvolveFilter(ish, A(p["data"]), mode=p["mode"], strides=p.get("strides"), multi_channel=p["multi_channel"])
    if cls == "Sense":
        import sigpy.mri as mr
        kw = {}
        if "coord" in p:
            kw["coord"] = A(p["coord"])
        if "weights" in p:
            kw["weights"] = A(p["weights"])
        if "coil_batch_size" in p:
            kw["coil_batch_size"] = p["coil_batch_size"]
        return mr.linop.Sense(A(p["mps"]), **kw)
    if cls == "ConvSense":
        import sigpy.mri as mr
        return mr.linop.ConvSense(p["img_ker_shape"], A(p["mps_ker"]))
    if cls == "ConvImage":
        import sigpy.mri as mr
        return mr.linop.ConvImage(p["mps_ker_shape"], A(p["img_ker"]))
    if cls == "PtxSpatialExplicit":
        import sigpy.mri.rf as rf
        return rf.linop.PtxSpatialExplicit(A(p["sens"]), A(p["coord"]), p["dt"], p["img_shape"])
    raise ValueError(cls)


def build_prox(spec, env):
    import sigpy as sp
    P = sp.prox
    c = spec["cls"]
    A = env.array
    sh = spec.get("shape")
    if c == "L1Reg":
        return P.L1Reg(sh, spec["lamda"])
    if c == "L2Reg":
        y = A(spec["y"]) if spec.get("y") else spec.get("y_scalar")
        ph = build_prox(spec["proxh"], env) if spec.get("proxh") else None
        return P.L2Reg(sh, spec["lamda"], y=y, proxh=ph)
    if c == "L2Proj":
        return P.L2Proj(sh, spec["epsilon"], y=A(spec["y"]) if spec.get("y") else 0)
    if c == "LInfProj":
        return P.LInfProj(sh, spec["epsilon"], bias=A(spec["bias"]) if spec.get("bias") else None)
    if c == "L1Proj":
        return P.L1Proj(sh, spec["epsilon"])
    if c == "BoxConstraint":
        if spec.get("lower_arr"):
            lo_ = np.real(A(spec["lower_arr"]))
            hi_ = lo_ + spec["width"]
            env.ledger.own("param%d" % env.nparams, hi_)
            env.nparams += 1
            return P.BoxConstraint(sh, lo_, hi_)
        return P.BoxConstraint(sh, spec["lower"], spec["upper"])
    if c == "NoOp":
        return P.NoOp(sh)
    if c == "PsdProj":
        return P.PsdProj(sh)
    if c == "Conj":
        return P.Conj(build_prox(spec["prox"], env))
    if c == "Stack":
        return P.Stack([build_prox(s, env) for s in spec["proxs"]])
    if c == "UnitaryTransform":
        return P.UnitaryTransform(build_prox(spec["prox"], env), build_op(spec["A"], env))
    raise ValueError(c)


def prox_real_only(spec):
    c = spec["cls"]
    if c == "BoxConstraint":
        return True
    if c in ("Conj", "UnitaryTransform"):
        return prox_real_only(spec["prox"])
    if c == "Stack":
        return any(prox_real_only(s) for s in spec["proxs"])
    if c == "L2Reg" and spec.get("proxh"):
        return prox_real_only(spec["proxh"])
    return False


def mk_input(shape, b):
    g = np.random.Generator(np.random.PCG64(b["seed"]))
    shape = tuple(int(s) for s in shape)
    kind = b.get("kind", "c128")
    v = np.round(g.standard_normal(shape), 3)
    if kind in ("c128", "c64"):
        v = v + 1j * np.round(g.standard_normal(shape), 3)
    v = v.astype(opgen.NP_KIND[kind])
    lay = b.get("layout", "C")
    if lay == "F" and v.ndim >= 2:
        return np.asfortranarray(v)
    if lay == "strided" and v.ndim >= 1 and v.size:
        big = np.zeros(shape[:-1] + (shape[-1] * 2,), dtype=v.dtype)
        big[..., ::2] = v
        return big[..., ::2]
    if lay == "neg" and v.ndim >= 1:
        return np.ascontiguousarray(v[..., ::-1])[..., ::-1]
    return v


def close(a, b, single):
    a = np.asarray(a)
    b = np.asarray(b)
    if a.shape != b.shape:
        return False, float("inf")
    if a.size == 0:
        return True, 0.0
    a128 = np.ascontiguousarray(a).astype(np.complex128)
    b128 = np.ascontiguousarray(b).astype(np.complex128)
    scale = float(max(np.max(np.abs(a128)), np.max(np.abs(b128)), 1e-300))
    if not (np.all(np.isfinite(a128)) and np.all(np.isfinite(b128))):
        same = np.array_equal(np.isfinite(a128), np.isfinite(b128))
        return same, 0.0 if same else float("inf")
    d = float(np.max(np.abs(a128 - b128))) / scale
    return d <= (1e-5 if single else 1e-12), d


def intermediate_scale(op, v):
    """Largest norm of any intermediate result when evaluating an operator
    tree on v (sums evaluated term by term). Used only as the scale against
    which a linearity defect is measured: an expression such as A - B with
    A == B has outputs that are pure rounding noise of the size of its terms."""
    from sigpy import linop as L

    try:
        if isinstance(op, L.Add):
            m = 0.0
            for c in op.linops:
                m = max(m, intermediate_scale(c, v))
            return m
        if isinstance(op, L.Compose):
            cur = v
            m = 0.0
            for c in op.linops[::-1]:
                m = max(m, intermediate_scale(c, cur))
                cur = c(cur)
            return m
        if isinstance(op, L.Conj):
            return intermediate_scale(op.A, np.conj(v))
        return float(np.linalg.norm(np.asarray(op(v)).ravel()))
    except Exception:
        return 0.0


class OpsWorld(World):
    name = "ops"
    property_id = "C02"

    def warmup(self, config="default"):
        common.warm_jit()

    # ------------------------------------------------------------------ plan
    def gen_plan(self, seed, tier, config="default"):
        rng = mk_rng(self.name, seed)
        sched = []
        nops = 0
        nprox = 0
        applies = []  # (step index, op index)
        pool = []  # (spec or None, ishape or None, oshape or None) per pool operator
        applies_by_op = {}

        def buf():
            return {"seed": rng.getrandbits(48), "kind": rng.choice(opgen.KINDS),
                    "layout": rng.choice(["C", "C", "C", "F", "strided", "neg"])}
        nsteps = rng.randint(8, 40)
        focus = rng.choice(["ops", "ops", "ops", "prox", "fn", "mixed"])
        for _ in range(nsteps):
            r = rng.random()
            if nops == 0 or (r < 0.18 and nops < 12):
                if nops and rng.random() < 0.35:
                    # combine existing pool operators (shares cached children and operand lists)
                    j = rng.randrange(nops)
                    kind = rng.choice(["H", "N", "neg", "conj", "scaleL", "scaleR", "scaleR", "scaleR", "scaleR", "HN", "NH", "addref", "addref", "subref",
                                       "refadd", "composeref", "refcompose", "stackref"])
                    ref = {"k": "ref", "i": j}
                    jspec, jin, jout = pool[j]
                    spec = None
                    shp = (None, None)
                    if kind in ("addref", "subref", "refadd"):
                        if jout is not None and jin == jout:
                            other = opgen.gen_leaf(rng, jin, preserve=True)[0]
                        elif jspec is not None:
                            other = opgen.gen_like(rng, jspec)
                        else:
                            other = None
                        if other is not None:
                            ops_ = [ref, other] if kind != "refadd" else [other, ref]
                            spec = {"k": "sub" if kind == "subref" else "add", "ops": ops_}
                            shp = (jin, jout)
                    elif kind == "composeref" and jin is not None:
                        other, oo = opgen.gen_leaf(rng, jin, preserve=True)
                        spec = {"k": "compose", "ops": [ref, other]}
                        shp = (jin, jout)
                    elif kind == "refcompose" and jout is not None:
                        other, oo = opgen.gen_leaf(rng, jout, allow_unknown=False)
                        spec = {"k": "compose", "ops": [other, ref]}
                        shp = (jin, oo)
                    elif kind == "stackref" and jin is not None and jout is not None and jin == jout:
                        other = opgen.gen_leaf(rng, jin, preserve=True)[0]
                        spec = {"k": rng.choice(["vstack", "hstack"]), "ops": [ref, other], "axis": None}
                        shp = (None, None)
                    if spec is None:
                        kind = rng.choice(["H", "N", "neg", "conj", "scaleL", "scaleR", "HN", "NH"]) if kind not in ("H", "N", "neg", "conj", "scaleL", "scaleR", "HN", "NH") else kind
                        spec = {"H": {"k": "H", "op": ref}, "N": {"k": "N", "op": ref}, "neg": {"k": "neg", "op": ref},
                                "conj": {"k": "conj", "op": ref},
                                "scaleL": {"k": "scale", "a": [0.5, -2.0], "side": "l", "op": ref},
                                "scaleR": {"k": "scale", "a": rng.choice([[3.0, 0.0], [0.5, 1.0], [-2.0, 0.0]]), "side": "r", "op": ref},
                                "HN": {"k": "N", "op": {"k": "H", "op": ref}},
                                "NH": {"k": "H", "op": {"k": "N", "op": ref}}}[kind]
                        shp = {"H": (jout, jin), "N": (jin, jin), "neg": (jin, jout), "conj": (jin, jout),
                               "scaleL": (jin, jout), "scaleR": (jin, jout), "HN": (jout, jout), "NH": (jin, jin)}[kind]
                    pool.append((None, shp[0], shp[1]))
                elif nops and rng.random() < 0.12 and any(pl[0] is not None for pl in pool):
                    # a second operator object built from the very same arrays
                    j2 = rng.choice([i_ for i_, pl in enumerate(pool) if pl[0] is not None])
                    spec, si, so = copy.deepcopy(pool[j2][0]), pool[j2][1], pool[j2][2]
                    if rng.random() < 0.5 and so is not None:
                        spec, si, so = {"k": "H", "op": spec}, so, si
                    pool.append((spec, si, so))
                else:
                    spec, si, so = opgen.gen_tree(rng, rng.choice([0, 0, 1, 1, 2, 3]))
                    pool.append((spec, si, so))
                sched.append({"op": "build", "spec": spec})
                nops += 1
                continue
            if focus in ("prox", "mixed") and r < 0.45 or (focus == "ops" and r < 0.22):
                sched.append({"op": "prox", "spec": opgen.gen_prox(rng), "alpha": round(10 ** rng.uniform(-1, 1), 3),
                              "input": buf(), "twice": rng.random() < 0.5,
                              "alpha_array": rng.getrandbits(32) if rng.random() < 0.2 else None})
                continue
            if focus in ("fn", "mixed") and r < 0.75 or (focus in ("ops", "prox") and r < 0.32):
                sched.append({"op": "fn", "fn": opgen.gen_fn(rng)})
                continue
            j = rng.randrange(nops)
            kind = rng.choice(["apply", "apply", "apply", "again", "equal", "out", "param", "take_H", "take_N", "lin", "lin", "inspect"])
            if kind == "inspect":
                sched.append({"op": "inspect", "i": j})
                continue
            if kind == "take_H":
                sched.append({"op": "take_H", "i": j})
                pool.append((None, pool[j][2], pool[j][1]))
                nops += 1
            elif kind == "take_N":
                sched.append({"op": "take_N", "i": j})
                pool.append((None, pool[j][1], pool[j][1]))
                nops += 1
            elif kind == "lin":
                sched.append({"op": "lin", "i": j, "a": rng.choice([[0.5, 1.5], [-1.0, 2.0], [2.0, -0.75], [0.0, 1.0]]),
                              "x": buf(), "y": buf()})
            else:
                st = {"op": "apply", "i": j, "input": buf(), "src": "fresh"}
                if kind in ("again", "equal", "out") and applies:
                    st["src"] = kind
                    st["step"] = rng.choice(applies)
                elif kind == "param":
                    st["src"] = "param"
                applies.append(len(sched))
                applies_by_op.setdefault(j, []).append(len(sched))
                sched.append(st)
        return {"world": self.name, "seed": seed, "schedule": sched, "faults": [], "knobs": {"focus": focus}}

    def sample_view(self, plan):
        out = []
        for s in plan["schedule"][:14]:
            if s["op"] == "build":
                out.append({"op": "build", "sig": sig(s["spec"])})
            elif s["op"] == "prox":
                out.append({"op": "prox", "cls": s["spec"]["cls"], "alpha": s["alpha"]})
            elif s["op"] == "fn":
                out.append({"op": "fn", "name": s["fn"]["name"]})
            else:
                out.append({k: v for k, v in s.items() if k in ("op", "i", "src", "step", "a")})
        return {"world": self.name, "seed": plan["seed"], "steps": len(plan["schedule"]), "head": out}

    # --------------------------------------------------------------- execute
    def execute(self, plan):
        res = Result()
        try:
            self._run(plan, res)
        except Violation as v:
            res.violation = v.as_dict()
        return res

    def _flag(self, res, inv, site, step, detail):
        if (inv, site) in getattr(self, "known", set()):
            res.known_hits.append({"invariant": inv, "site": site, "detail": codec.jsonable(detail)})
            res.stats["probes.known_finding_hit"] += 1
            return
        raise Violation(inv, site, step, detail)

    def _run(self, plan, res):
        from . import opfns

        stats = res.stats
        ledger = Ledger()
        env = Env(ledger, stats)
        first = {}  # (op idx, input digest) -> (output copy)
        step_io = {}  # step -> (op idx, input array, output array)
        nbuf = [0]
        acts = []
        classes = set()
        judged = 0

        def own(name, a):
            if isinstance(a, np.ndarray):
                ledger.own("%s%d" % (name, nbuf[0]), a)
                nbuf[0] += 1

        def check_ledger(step, site, outputs=()):
            bad = ledger.verify(outputs=outputs)
            if bad:
                self._flag(res, "caller_array_modified", site, step, {"changed": bad[:4]})
                for b in bad:
                    ledger.refresh(b)

        def is_single(*arrays):
            for a in arrays:
                if isinstance(a, np.ndarray) and a.dtype in (np.dtype("float32"), np.dtype("complex64")):
                    return True
            return any(kk in ("c64", "f32") for kk in env.kinds)

        def dirty_heap(op, x):
            """Seam: the allocator hands out recycled memory.  Blocks of the sizes this call is about
            to request are allocated, filled with a recognisable non-zero value and freed, so that an
            output obtained from np.empty and not completely written does not happen to read as zero."""
            try:
                sizes = {int(np.prod(op.oshape)), int(np.prod(op.ishape))}
            except Exception:
                return
            dirty_sizes(sizes)

        def dirty_sizes(sizes):
            junk = []
            for n_ in sizes:
                for dt_ in (np.float32, np.float64, np.complex64, np.complex128):
                    for _ in range(2):
                        junk.append(np.full(max(1, n_), 12345.678, dtype=dt_))
            del junk

        def apply_op(step, j, x, judged_raise=False):
            ent = env.ops[j]
            op = ent["op"]
            dirty_heap(op, x)
            try:
                out = op(x)
            except Exception as e:
                stats["probes.rejected"] += 1
                stats["rejected." + top_site(ent["spec"])] += 1
                if getattr(self, "debug_rejects", None) is not None:
                    c = e.__cause__ or e
                    self.debug_rejects[(top_site(ent["spec"]), type(c).__name__, str(c)[:90])] += 1
                return None
            if not isinstance(out, np.ndarray):
                if np.isscalar(out) or isinstance(out, np.generic):
                    out = np.asarray(out)
                else:
                    raise Violation("output_not_array", top_site(ent["spec"]), step, {"type": type(out).__name__})
            if list(out.shape) != list(op.oshape):
                raise Violation("output_shape_not_advertised", top_site(ent["spec"]), step,
                                {"shape": list(out.shape), "oshape": list(op.oshape), "sig": sig(ent["spec"])})
            return out

        for step, s in enumerate(plan["schedule"]):
            kind = s["op"]
            stats["steps"] += 1
            if kind == "build":
                acts.append("b")
                env.cur_params = []
                try:
                    op = build_op(s["spec"], env)
                except Exception as e:
                    stats["probes.build_rejected"] += 1
                    # keep pool indices stable: register an identity placeholder
                    import sigpy as sp
                    op = sp.linop.Identity([2])
                    s = {"op": "build", "spec": {"k": "leaf", "cls": "Identity", "ishape": [2], "p": {}}}
                env.ops.append({"op": op, "spec": s["spec"], "params": env.cur_params})
                env.cur_params = None
                classes.add(top_site(s["spec"]))
                check_ledger(step, top_site(s["spec"]))
            elif kind in ("take_H", "take_N"):
                acts.append("h" if kind == "take_H" else "n")
                j = s["i"] % len(env.ops)
                ent = env.ops[j]
                try:
                    op = ent["op"].H if kind == "take_H" else ent["op"].N
                except Exception:
                    stats["probes.build_rejected"] += 1
                    op = ent["op"]
                env.ops.append({"op": op, "spec": {"k": "H" if kind == "take_H" else "N", "op": ent["spec"]},
                                "params": ent["params"]})
                check_ledger(step, top_site(ent["spec"]))
            elif kind == "inspect":
                # attribute reads and derived-operator construction between applications
                acts.append("i")
                ent = env.ops[s["i"] % len(env.ops)]
                op = ent["op"]
                try:
                    repr(op)
                    _ = (list(op.ishape), list(op.oshape), op.repr_str)
                    hh = op.H.H
                    nn = op.N
                    _ = (hh.ishape, nn.oshape, op.H.N.ishape)
                except Exception:
                    stats["probes.build_rejected"] += 1
                check_ledger(step, top_site(ent["spec"]))
            elif kind == "apply":
                j = s["i"] % len(env.ops)
                ent = env.ops[j]
                op = ent["op"]
                ish = list(op.ishape)
                src = s.get("src", "fresh")
                x = None
                if src in ("again", "equal", "out") and s.get("step") in step_io:
                    pj, px, pout = step_io[s["step"]]
                    if src == "again" and list(px.shape) == ish:
                        x = px
                        stats["buggify.reapply_same_object"] += 1
                    elif src == "equal" and list(px.shape) == ish:
                        x = px.copy()
                        own("in", x)
                        stats["buggify.reapply_equal_copy"] += 1
                    elif src == "out" and pout is not None and list(pout.shape) == ish:
                        x = pout
                        stats["buggify.input_is_earlier_output"] += 1
                elif src == "param":
                    for pa in ent["params"]:
                        if list(pa.shape) == ish and pa.dtype.kind in "fc":
                            x = pa
                            stats["buggify.input_is_captured_parameter"] += 1
                            break
                if x is None:
                    x = mk_input(ish, s["input"])
                    own("in", x)
                    if s["input"].get("layout") != "C":
                        stats["buggify.layout_" + s["input"].get("layout")] += 1
                acts.append("a")
                site = top_site(ent["spec"])
                out = apply_op(step, j, x)
                check_ledger(step, site)
                step_io[step] = (j, x, out)
                if out is None:
                    continue
                judged += 1
                if out is x or (isinstance(out, np.ndarray) and np.shares_memory(out, x)):
                    stats["probes.ops_alias_returned"] += 1
                own("out", out)
                key = (j, codec.bytes_digest(x))
                if key in first:
                    stats["probes.determinism_compared"] += 1
                    ok, d = close(out, first[key], is_single(x, out))
                    res.note_max("determinism_dev", d / (1e-5 if is_single(x, out) else 1e-12))
                    if not ok or out.dtype != first[key].dtype:
                        self._flag(res, "reapplication_differs", site, step,
                                   {"rel_dev": d, "dtype": [out.dtype.name, first[key].dtype.name], "sig": sig(ent["spec"])})
                else:
                    first[key] = out.copy()
            elif kind == "lin":
                j = s["i"] % len(env.ops)
                ent = env.ops[j]
                op = ent["op"]
                ish = list(op.ishape)
                acts.append("l")
                a = complex(*s["a"])
                x = mk_input(ish, s["x"])
                y = mk_input(ish, s["y"])
                own("in", x)
                own("in", y)
                site = top_site(ent["spec"])
                z = a * x + y
                own("in", z)
                oz = apply_op(step, j, z)
                ox = apply_op(step, j, x)
                oy = apply_op(step, j, y)
                check_ledger(step, site)
                if oz is None or ox is None or oy is None:
                    stats["probes.lin_partially_rejected"] += 1 if not (oz is None and ox is None and oy is None) else 0
                    continue
                judged += 1
                single = is_single(x, y, ox, oy, oz) or x.dtype.kind != "c" or y.dtype.kind != "c"
                lhs = oz.astype(np.complex128)
                rhs = a * ox.astype(np.complex128) + oy.astype(np.complex128)
                if not (np.all(np.isfinite(lhs)) and np.all(np.isfinite(rhs))):
                    # overflow of the working precision (e.g. repeated normal operators of a
                    # large-gain kernel in float32): nothing to compare
                    stats["probes.lin_overflow_unjudged"] += 1
                    continue
                num = float(np.linalg.norm((lhs - rhs).ravel()))
                den = abs(a) * float(np.linalg.norm(ox.ravel())) + float(np.linalg.norm(oy.ravel())) + float(np.linalg.norm(lhs.ravel()))
                tol = 1e-4 if single else 1e-10
                if num > 0.01 * tol * den:
                    # guard against cancellation inside the tree (A - B with A ~ B)
                    den = max(den, abs(a) * intermediate_scale(op, x) + intermediate_scale(op, y) + intermediate_scale(op, z))
                    check_ledger(step, site)
                tol = 1e-4 if single else 1e-10
                stats["probes.linearity_probes"] += 1
                if x.dtype.kind != "c" or y.dtype.kind != "c":
                    stats["probes.linearity_with_real_input"] += 1
                if den > 0:
                    res.note_max("linearity_over_tol." + ("single" if single else "double"), num / (tol * den))
                if not np.isfinite(num) or num > tol * den + 1e-300:
                    self._flag(res, "not_linear_over_C", site, step,
                               {"rel": num / (den + 1e-300), "tol": tol, "sig": sig(ent["spec"]),
                                "dtypes": [x.dtype.name, y.dtype.name, ox.dtype.name, oy.dtype.name, oz.dtype.name]})
                own("out", oz)
                own("out", ox)
                own("out", oy)
            elif kind == "prox":
                acts.append("p")
                spec = s["spec"]
                env.cur_params = []
                try:
                    P = build_prox(spec, env)
                except Exception:
                    stats["probes.build_rejected"] += 1
                    env.cur_params = None
                    continue
                env.cur_params = None
                b = dict(s["input"])
                if prox_real_only(spec) and b["kind"] in ("c128", "c64"):
                    b["kind"] = "f64"
                if spec["cls"] == "PsdProj" and b["kind"] in ("f32", "c64"):
                    b["kind"] = "c128" if b["kind"] == "c64" else "f64"
                x = mk_input(P.shape, b)
                own("in", x)
                site = "prox." + spec["cls"]
                classes.add(site)
                alpha = s["alpha"]
                if s.get("alpha_array") is not None and spec["cls"] in ("L1Reg", "L2Reg", "NoOp", "BoxConstraint"):
                    # array-valued step (as PrimalDualHybridGradient passes with array tau / sigma)
                    ga = np.random.Generator(np.random.PCG64(s["alpha_array"]))
                    alpha = np.round(ga.uniform(0.1, 2.0, size=tuple(P.shape)), 3)
                    if x.dtype in (np.dtype("float32"), np.dtype("complex64")):
                        alpha = alpha.astype(np.float32)
                    own("alpha", alpha)
                    stats["buggify.prox_array_step"] += 1
                try:
                    o1 = P(alpha, x)
                except Exception:
                    stats["probes.rejected"] += 1
                    stats["rejected." + site] += 1
                    check_ledger(step, site)
                    continue
                check_ledger(step, site)
                judged += 1
                if isinstance(o1, np.ndarray):
                    if o1 is x or np.shares_memory(o1, x):
                        stats["probes.prox_alias_returned"] += 1
                    o1c = o1.copy()
                    own("out", o1)
                    if s.get("twice"):
                        o2 = P(alpha, x)
                        check_ledger(step, site)
                        ok, d = close(o2, o1c, is_single(x, o1c))
                        if not ok:
                            self._flag(res, "reapplication_differs", site, step, {"rel_dev": d})
                        own("out", o2)
            elif kind == "fn":
                acts.append("f")
                name = s["fn"]["name"]
                site = "fn." + name
                classes.add(site)
                call = opfns.make_call(name, s["fn"]["seed"], s["fn"]["kind"])
                if call is None:
                    continue
                fn, args, kwargs, outputs = call
                for a_ in list(args) + list(kwargs.values()):
                    if isinstance(a_, np.ndarray):
                        own("arg", a_)
                    elif isinstance(a_, (list, tuple)):
                        for e in a_:
                            if isinstance(e, np.ndarray):
                                own("arg", e)
                dirty_sizes({int(a_.size) for a_ in args if isinstance(a_, np.ndarray)})
                try:
                    out = fn(*args, **kwargs)
                except Exception as e:
                    stats["probes.rejected"] += 1
                    stats["rejected." + site] += 1
                    check_ledger(step, site, outputs=outputs)
                    continue
                check_ledger(step, site, outputs=outputs)
                judged += 1
                stats["fn_calls"] += 1
                outs = out if isinstance(out, (list, tuple)) else [out]
                for o in outs:
                    if isinstance(o, np.ndarray):
                        own("out", o)
                if name not in ("monte_carlo_sure", "axpy", "xpay", "copyto"):
                    # call again with the very same arguments: equal results
                    try:
                        if isinstance(out, np.ndarray):
                            dirty_sizes({int(out.size)})
                        out2 = fn(*args, **kwargs)
                    except Exception:
                        out2 = None
                    check_ledger(step, site, outputs=outputs)
                    if out2 is not None:
                        o2s = out2 if isinstance(out2, (list, tuple)) else [out2]
                        for o, o2 in zip(outs, o2s):
                            if isinstance(o, np.ndarray) and isinstance(o2, np.ndarray):
                                ok, d = close(o2, o, True)
                                if not ok:
                                    self._flag(res, "reapplication_differs", site, step, {"rel_dev": d})
            if len(res.trace) < 60:
                res.trace.append({"a": acts[-1] if acts else "?", "n": len(ledger)})
        res.nontrivial = judged > 0
        res.sim_time = float(len(plan["schedule"]))
        res.fingerprint = codec.json_digest([sorted(classes), common.compress_actions(acts)[:60],
                                             [sig(e["spec"])[:60] for e in env.ops][:8]])
        stats["ledger_arrays"] += len(ledger)

    # ---------------------------------------------------------------- shrink
    def shrink_candidates(self, plan, violation):
        # simplify operator trees: replace a build spec by one of its children
        for i, s in enumerate(plan["schedule"]):
            if s["op"] == "build":
                sp_ = s["spec"]
                kids = sp_.get("ops") or ([sp_["op"]] if "op" in sp_ else [])
                for kid in kids:
                    if kid.get("k") == "ref":
                        continue
                    p = copy.deepcopy(plan)
                    p["schedule"][i]["spec"] = kid
                    yield p
            if s["op"] in ("apply", "prox") and s.get("input", {}).get("layout", "C") != "C":
                p = copy.deepcopy(plan)
                p["schedule"][i]["input"]["layout"] = "C"
                yield p
            if s["op"] == "apply" and s.get("src") != "fresh":
                p = copy.deepcopy(plan)
                p["schedule"][i]["src"] = "fresh"
                yield p


WORLD = OpsWorld()
