"""World `stop` (property C15): every interleaving of done()/update()/peeks and
App.run() over every Alg subclass and the Apps, with the clock and progress
stream of App.run simulated (clock jumps, stream write faults).

Invariants after every step: iter advances by exactly one per update (S1),
queries change nothing (S2), loops perform <= max_iter updates (S3), run()
returns what the algorithm holds and equals the twin's manual loop (S4), an
early stop with tol=0 is a genuine fixed point or a flagged breakdown (S5),
power-iteration estimates are monotone and bounded by lambda_max (S6)."""
import copy
import random

import numpy as np

from simkit import codec
from simkit.seams import InjectedCallbackFault, Seams, SimClock, SimStream
from simkit.world import Discard, Result, Violation, World, mk_rng

from . import common

KINDS = ["power", "maxeig", "gm", "cg", "pdhg", "altmin", "alm", "admm", "sdmm", "newton", "gs",
         "lls", "l2c"]


def generic_state(obj, extra=()):
    """Exact digest of every array/scalar attribute reachable from an Alg."""
    import hashlib

    h = hashlib.blake2b(digest_size=12)

    def feed(name, v):
        if isinstance(v, np.ndarray):
            h.update(name.encode())
            h.update(codec.bytes_digest(v).encode())
        elif isinstance(v, (bool, int, float, complex, str, type(None), np.generic)):
            h.update(name.encode())
            h.update(repr(v).encode())
        elif isinstance(v, (list, tuple)):
            for i, e in enumerate(v):
                feed("%s[%d]" % (name, i), e)

    for name in sorted(vars(obj)):
        feed(name, vars(obj)[name])
    for i, a in enumerate(extra):
        feed("extra%d" % i, a)
    return h.hexdigest()


class System:
    """One live solver instance built from a plan."""

    def __init__(self):
        self.alg = None
        self.app = None
        self.site = None
        self.max_iter = None
        self.solution = None  # callable -> list of arrays / scalars
        self.extra = []  # harness-held arrays that are part of the solver state
        self.breakdown = lambda: False
        self.curvature = None  # callable -> dict when the flagged breakdown has no non-positive curvature behind it
        self.scale = 1.0
        self.power = None  # dict(lmax=...)
        self.expected_output = None  # callable -> object run() must return


def _curvature_probe(S, Amat):
    """The harness knows the system matrix is Hermitian positive definite.  When CG flags a
    breakdown, <p, A p> re-computed in double precision from the solver's own search direction
    tells whether there was any non-positive curvature to detect.  Unjudged (None) when the
    direction has underflowed (an exact stop) or the matrix is numerically singular in the
    solver's precision - there a rounded <p, A p> <= 0 is an honest observation."""
    A64 = np.asarray(Amat).astype(np.complex128)
    A64 = (A64 + A64.conj().T) / 2
    w = np.linalg.eigvalsh(A64)
    lmin, lmax = float(w[0]), float(w[-1])

    def probe():
        p = getattr(S.alg, "p", None)
        if p is None or lmin <= 0:
            return None
        fi = np.finfo(np.asarray(p).dtype if np.asarray(p).dtype.kind in "fc" else np.float64)
        pv = np.asarray(p).astype(np.complex128).ravel()
        pp = float(np.real(np.vdot(pv, pv)))
        if not np.isfinite(pp) or lmin / lmax < 1e3 * fi.eps or lmin * pp < 1e6 * float(fi.tiny):
            return None
        pAp = float(np.real(np.vdot(pv, A64 @ pv)))
        if pAp > 0.5 * lmin * pp:
            return {"pAp": pAp, "pp": pp, "lambda_min": lmin, "lambda_max": lmax, "dtype": np.asarray(p).dtype.name}
        return None
    return probe


class StopWorld(World):
    name = "stop"
    property_id = "C15"

    def warmup(self, config="default"):
        common.warm_jit()

    # ------------------------------------------------------------------ plan
    def gen_plan(self, seed, tier, config="default"):
        rng = mk_rng(self.name, seed)
        g = common.np_gen(rng)
        # solvers with a tol-driven stopping rule get more weight: the early-stop
        # clause (S5) only has purchase there
        kinds = list(KINDS) + ["gm"] * 4 + ["pdhg"] * 2 + ["cg", "lls"]
        kind = rng.choice(kinds)
        if rng.random() < (0.08 if tier == "thorough" else 0.04):
            kind = "mri"
        cplx = rng.random() < 0.4
        n = rng.randint(1, 5)
        m = rng.randint(n, 6)
        sysd = {"kind": kind, "complex": cplx, "n": n, "m": m}
        mi = rng.choice([0, 1, 1, 2, 2, 3, 4, 5, 6, 8, 10, 12])
        if kind in ("gm", "pdhg") and rng.random() < 0.6:
            mi = rng.choice([8, 12, 16, 20])
        sysd["max_iter"] = mi
        M = common.randn(g, (m, n), cplx, round_=3)
        y = common.randn(g, (m,), cplx, round_=3)
        x0kind = rng.choice(["zero", "zero", "random", "exact"])
        sysd["x0kind"] = x0kind
        x0 = np.zeros(n, dtype=M.dtype) if x0kind == "zero" else common.randn(g, (n,), cplx, round_=3)
        sysd["scale"] = rng.choice([1.0, 1.0, 1.0, 1e-9, 1e-18, 1e6]) if kind in ("gm", "cg", "pdhg", "lls", "l2c") else 1.0
        sysd["call_style"] = random.Random("stop-callstyle:%d" % seed).choice(["keyword"] * 5 + ["positional"])
        sysd["ret_style"] = random.Random("stop-retstyle:%d" % seed).choice(["fresh"] * 4 + ["reuse"])
        if sysd["scale"] != 1.0:
            # tiny or huge data: a stopping rule must be about fixed points, not absolute sizes
            y = y * sysd["scale"]
            x0 = x0 * sysd["scale"]
        sysd["M"], sysd["y"], sysd["x0"] = codec.enc(M), codec.enc(y), codec.enc(x0)
        sysd["gkind"] = rng.choice(["none", "l1", "l1", "l2", "box"]) if not cplx else rng.choice(["none", "l1", "l1", "l2"])
        sysd["lam"] = float(round(10 ** rng.uniform(-1.5, 0.8), 4))
        sysd["lo"], sysd["hi"] = -0.25, 0.5
        if rng.random() < 0.5:
            # tight boxes: every coordinate can be pinned while momentum is still active
            w = rng.choice([0.3, 0.1, 0.03])
            sysd["lo"], sysd["hi"] = -w, round(w * rng.choice([1, 2]), 3)
        sysd["rng_seed"] = rng.randrange(2 ** 31)
        sysd["show_pbar"] = rng.random() < 0.7
        sysd["leave_pbar"] = rng.random() < 0.7
        sysd["record_time"] = rng.random() < 0.7
        sysd["norm_func"] = rng.random() < 0.3
        sysd["interfere"] = rng.random() < 0.2
        sysd["iterprox"] = rng.random() < 0.25
        if kind in ("power", "maxeig"):
            r = rng.randint(1, n)
            ev = sorted([round(rng.uniform(0.1, 3), 3) for _ in range(r)] + [0.0] * (n - r), reverse=True)
            if rng.random() < 0.3 and n > 1:
                ev[1] = ev[0]
            A, _ = common.hpd(g, n, cplx, ev)
            sysd["A"] = codec.enc(A)
            sysd["form"] = rng.choice(["func", "linop"])
            sysd["x0"] = codec.enc(common.randn(g, (n,), cplx, round_=3) * rng.choice([1e-3, 1, 50]))
        if kind == "gm":
            sysd["c"] = rng.choice([1.0, 0.5])
            sysd["accelerate"] = rng.random() < 0.6
            if sysd["gkind"] == "none" and rng.random() < 0.6:
                sysd["gkind"] = "box" if not cplx else "l1"
        if kind == "cg":
            ev = [round(10 ** rng.uniform(0, 2), 3) for _ in range(n)]
            if rng.random() < 0.3:
                ev = [ev[0]] * n
            elif rng.random() < 0.35:
                # severely ill-conditioned (Hilbert-like): floating-point CG is far from the
                # solution after n updates, so stopping there is not a fixed point
                ev = [float(10 ** (-2.0 * i)) for i in range(n)]
            A, _ = common.hpd(g, n, cplx, ev)
            sysd["A"] = codec.enc(A)
            sysd["bkind"] = rng.choice(["random", "zero", "eigvec"])
            # single-precision data (own generator: the other sessions' plans stay what they were)
            # (not together with the tiny data scales: <r, r> of 1e-9-sized single-precision data
            # underflows to zero after a few updates, which is arithmetic, not a stopping rule)
            sysd["single"] = random.Random("stop-cg-single:%d" % seed).random() < 0.25 and sysd["scale"] >= 1.0
        if kind == "pdhg":
            sysd["sigma"] = float(round(10 ** rng.uniform(-3, 0), 5))
            sysd["steps"] = rng.choice(["scalar", "scalar", "array"])
            sysd["gamma"] = rng.choice(["none", "none", "dual"])
            sysd["theta"] = rng.choice([1, 1, 1, 0.5, 0])
            sysd["pdhg_form"] = rng.choice(["ls", "ls", "analysis_l1"])
        if kind == "sdmm":
            sysd["nL"] = rng.randint(0, 2)
            # square constraint matrices: the only shape SDMM's update supports
            sysd["L"] = [codec.enc(common.randn(g, (n, n), False, round_=2)) for _ in range(sysd["nL"])]
            sysd["c"] = [round(rng.uniform(0.2, 3), 2) for _ in range(sysd["nL"])]
            sysd["c_max"] = rng.choice([None, 0.5, 2.0])
            sysd["c_norm"] = rng.choice([None, 1.0, 4.0])
            sysd["eps"] = rng.choice([0.0, 0.0, 1e-5])
            sysd["max_cg_iter"] = rng.randint(1, 6)
        if kind == "newton":
            sysd["beta"] = rng.choice([1, 0.5])
            sysd["fkind"] = rng.choice(["quadratic", "logcosh"])
        if kind == "gs":
            sysd["lamb"] = rng.choice([0, 0.01])
        if kind == "lls":
            sysd["solver"] = rng.choice(["ConjugateGradient", "GradientMethod", "PrimalDualHybridGradient", "ADMM"])
            sysd["Aform"] = rng.choice(["matmul", "identity"])
            if sysd["solver"] == "ConjugateGradient":
                sysd["gkind"] = "none"
            sysd["lamda"] = rng.choice([0, 0, sysd["lam"]])
            sysd["defaults"] = rng.random() < 0.6  # default step sizes (MaxEig + global RNG)
            sysd["x_narrow"] = rng.random() < 0.15
        if kind == "l2c":
            sysd["eps_c"] = float(round(rng.uniform(0.05, 1.5), 3))
        if kind == "mri":
            sysd["app"] = rng.choice(["SenseRecon", "L1WaveletRecon", "TotalVariationRecon", "EspiritCalib", "JsenseRecon"])
            sysd["max_iter"] = rng.choice([0, 1, 2, 3])
            sysd["shape"] = rng.choice([[6, 6], [8, 6]])
            sysd["ncoils"] = rng.randint(2, 3)
        style = rng.choice(["interleaved", "interleaved", "canonical", "run", "run", "run_twice", "manual_then_run"])
        sched = []
        if style == "canonical":
            sched = ["L"]
        elif style == "run":
            sched = ["RUN"]
        elif style == "manual_then_run":
            # the caller steps the algorithm inside the app by hand, looks at it, then lets run() finish
            sched = []
            for _ in range(rng.randint(1, max(1, min(mi, 3)))):
                sched += ["u", rng.choice(["D", "P", "R", "I"])]   # u: update only if not done()
            sched += ["RUN"]
        elif style == "run_twice":
            # a second run() on the same App: resumes after an aborted first run, or finds the
            # algorithm done and must change nothing
            sched = ["RUN", rng.choice(["D", "P"]), "RUN"]
        else:
            for _ in range(rng.randint(0, mi + 2)):
                for _ in range(rng.randint(0, 2)):
                    sched.append(rng.choice(["D", "P", "R"]))
                sched.append("U")
            sched += [rng.choice(["D", "P", "R"]), "L"]
            sched += ["U"] * rng.choice([0, 0, 1, 2]) + ["D"]
        plan = {"world": self.name, "seed": seed, "sys": sysd, "schedule": sched, "style": style,
                "faults": [], "knobs": {"kind": kind}}
        if kind in ("gm", "pdhg", "cg") and rng.random() < 0.2:
            # transient failure of a user callback in the middle of an update; the caller
            # catches it and carries on with the same loop
            cbs = {"gm": ["gradf", "proxg"], "pdhg": ["A", "AH", "proxg", "proxfc"], "cg": ["A"]}[kind]
            plan["faults"].append({"seam": "callback", "cb": rng.choice(cbs), "at_call": rng.randint(1, 12)})
        plan["clock"] = {"start": 1.7e9, "incs": [round(rng.uniform(1e-4, 0.3), 4) for _ in range(rng.randint(1, 4))],
                         "jumps": {}}
        if rng.random() < 0.35:
            fk = rng.choice(["eio", "closed", "epipe", "short", "clock_back", "clock_fwd", "epipe_once", "epipe_once", "eio_once"])
            if fk.startswith("clock"):
                plan["faults"].append({"seam": "clock", "at_read": rng.randint(0, 30),
                                       "delta": -3600.0 if fk == "clock_back" else 86400.0})
            else:
                plan["faults"].append({"seam": "stream", "at_write": rng.randint(0, 25), "kind": fk})
        return plan

    def sample_view(self, plan):
        s = {k: v for k, v in plan["sys"].items() if not codec.is_enc(v) and k != "L"}
        return {"world": self.name, "seed": plan["seed"], "sys": s, "schedule": plan["schedule"],
                "faults": plan["faults"], "style": plan.get("style")}

    # --------------------------------------------------------------- builders
    def build(self, sysd, stats):
        import sigpy as sp
        from sigpy import alg as A_

        kind = sysd["kind"]
        n, m = sysd["n"], sysd["m"]
        M = codec.dec(sysd["M"])
        y = codec.dec(sysd["y"])
        x0 = codec.dec(sysd["x0"])
        dt = M.dtype
        mi = sysd["max_iter"]
        S = System()
        S.max_iter = mi
        sc_ = float(sysd.get("scale", 1.0))
        S.scale = float(np.linalg.norm(y) + (np.linalg.norm(M) + 1.0) * sc_)
        gk, lam, lo, hi = sysd.get("gkind", "none"), sysd.get("lam", 0.1), sysd.get("lo"), sysd.get("hi")
        sc0 = float(sysd.get("scale", 1.0))
        if sc0 != 1.0:
            # keep the regulariser commensurate with the data
            if gk == "l1":
                lam = lam * sc0
            if gk == "box" and lo is not None:
                lo, hi = lo * sc0, hi * sc0
        MH = M.conj().T.copy()
        np.random.seed(sysd["rng_seed"])

        cbf = getattr(self, "_cb_fault", None)
        calls = {}

        reuse = sysd.get("ret_style") == "reuse"
        bufs = {}

        def flaky(name, fn):
            faulty = bool(cbf) and cbf["cb"] == name
            if not faulty and not reuse:
                return fn

            def wrapped(*a):
                if faulty:
                    i = calls.get(name, 0)
                    calls[name] = i + 1
                    if i == cbf["at_call"]:
                        stats["faults_fired.callback_raise_once"] += 1
                        raise InjectedCallbackFault("callback %s failed (call %d)" % (name, i))
                out = fn(*a)
                if reuse and isinstance(out, np.ndarray):
                    # buggify: the callback hands back the same preallocated array every call
                    b_ = bufs.get(name)
                    if b_ is None or b_.shape != out.shape or b_.dtype != out.dtype:
                        b_ = bufs[name] = np.empty_like(out)
                    np.copyto(b_, out)
                    stats["buggify.reuse_buffer"] += 1
                    return b_
                return out
            return wrapped

        def construct(name, cls, *a, **kw_):
            """The documented constructor call, by keyword or - same values - by position."""
            if sysd.get("call_style") == "positional":
                a, kw_ = common.as_positional(name, a, kw_)
                stats["buggify.positional_arguments"] += 1
            return cls(*a, **kw_)

        def mk_prox0(shape):
            if gk == "l1":
                return sp.prox.L1Reg(shape, lam)
            if gk == "l2":
                return sp.prox.L2Reg(shape, lam)
            if gk == "box":
                return sp.prox.BoxConstraint(shape, lo, hi)
            return sp.prox.NoOp(shape)

        def mk_prox(shape):
            p0 = mk_prox0(shape)
            if sysd.get("iterprox") and kind in ("gm", "pdhg"):
                return common.iterative_prox(p0, stats)
            return p0

        if sysd.get("x0kind") == "exact" and kind in ("gm", "cg", "pdhg", "newton"):
            if kind == "cg":
                Amat = codec.dec(sysd["A"])
                x0 = np.zeros(n, dtype=Amat.dtype)  # set below once b is known
            else:
                x0 = np.linalg.lstsq(M, y, rcond=None)[0].astype(dt)

        if kind in ("power", "maxeig"):
            Amat = codec.dec(sysd["A"])
            lmax = float(np.linalg.eigvalsh((Amat + Amat.conj().T) / 2)[-1])
            S.power = {"lmax": lmax}
            S.scale = lmax + 1e-300
            if kind == "power":
                x = codec.dec(sysd["x0"]).astype(Amat.dtype)
                if np.linalg.norm(Amat @ x) <= 1e-6 * lmax * np.linalg.norm(x) or np.linalg.norm(x) == 0:
                    raise Discard("start_in_null_space")
                if sysd["form"] == "linop":
                    x = x.reshape(n, 1)
                    Aop = sp.linop.MatMul([n, 1], Amat)
                else:
                    def Aop(v):
                        return Amat @ v
                nf = (lambda v: float(np.sqrt(np.real(np.vdot(v, v))))) if sysd.get("norm_func") else None
                S.alg = construct("PowerMethod", A_.PowerMethod, Aop, x, norm_func=nf, max_iter=mi)
                S.site = "PowerMethod"
                S.solution = lambda: [S.alg.x, np.float64(S.alg.max_eig)]
            else:
                Aop = sp.linop.MatMul([n, 1], Amat)
                S.app = sp.app.MaxEig(Aop, dtype=Amat.dtype, max_iter=mi, show_pbar=sysd["show_pbar"],
                                      leave_pbar=sysd.get("leave_pbar", True))
                S.alg = S.app.alg
                S.site = "MaxEig"
                S.solution = lambda: [S.alg.x, np.float64(S.alg.max_eig)]
                S.expected_output = lambda: S.alg.max_eig
        elif kind == "gm":
            L = float(np.linalg.norm(M, 2) ** 2) or 1.0
            x = x0.copy()

            def gradf(v):
                if sysd.get("interfere"):
                    common.run_other_solvers(v.shape, v.dtype, stats)
                return MH @ (M @ v - y)
            S.alg = construct("GradientMethod", A_.GradientMethod, flaky("gradf", gradf), x, sysd["c"] / L,
                                      proxg=flaky("proxg", mk_prox([n])) if gk != "none" else None,
                                      accelerate=sysd["accelerate"], max_iter=mi, tol=0)
            S.site = "GradientMethod"
            S.solution = lambda: [S.alg.x]
        elif kind == "cg":
            Amat = codec.dec(sysd["A"])
            bk = sysd["bkind"]
            if bk == "zero":
                b = np.zeros(n, dtype=Amat.dtype)
            elif bk == "eigvec":
                b = (np.linalg.eigh(Amat)[1][:, 0] * sc0).astype(Amat.dtype)
            else:
                b = codec.dec(sysd["y"])[:n].astype(Amat.dtype) if m >= n else np.ones(n, dtype=Amat.dtype) * sc0
            x = codec.dec(sysd["x0"]).astype(Amat.dtype)
            if sysd.get("x0kind") == "exact":
                x = np.linalg.solve(Amat, b)
            if sysd.get("single"):
                sdt = np.complex64 if Amat.dtype.kind == "c" else np.float32
                Amat, b, x = Amat.astype(sdt), b.astype(sdt), x.astype(sdt)
                stats["buggify.single_precision_data"] += 1
            def Acg(v):
                if sysd.get("interfere"):
                    common.run_other_solvers(v.shape, v.dtype, stats)
                return Amat @ v
            S.alg = construct("ConjugateGradient", A_.ConjugateGradient, flaky("A", Acg), b, x, max_iter=mi, tol=0)
            S.site = "ConjugateGradient"
            S.solution = lambda: [S.alg.x]
            S.breakdown = lambda: bool(S.alg.not_positive_definite)
            S.curvature = _curvature_probe(S, Amat)
            S.scale = float(np.linalg.norm(b) + sc_)
        elif kind == "pdhg":
            normA = float(np.linalg.norm(M, 2)) or 1.0
            x = x0.copy()
            u = np.zeros(m, dtype=dt)
            sigma = sysd["sigma"]
            tau = 1.0 / (sigma * normA ** 2)
            if sysd["steps"] == "array":
                sigma = np.full(m, sigma)
                tau = np.full(n, tau)
            gd = 1 if sysd["gamma"] == "dual" else 0
            proxfc = sp.prox.L2Reg([m], 1, y=-y)
            pg_ = mk_prox([n])
            if sysd.get("pdhg_form") == "analysis_l1":
                # min_x 1/2||x - b||^2 + lam ||M x||_1 : projection-type dual prox, biased primal prox
                proxfc = sp.prox.Conj(sp.prox.L1Reg([m], lam))
                bvec = (x0 + 1.0 * sc0).astype(dt) if np.all(x0 == 0) else x0.astype(dt)
                pg_ = sp.prox.L2Reg([n], 1, y=bvec)
                x = np.zeros(n, dtype=dt)
                gd = 0
            def Apd(v):
                if sysd.get("interfere"):
                    common.run_other_solvers(v.shape, v.dtype, stats)
                return M @ v

            def AHpd(v):
                if sysd.get("interfere"):
                    common.run_other_solvers(v.shape, v.dtype, stats)
                return MH @ v
            S.alg = construct("PrimalDualHybridGradient", A_.PrimalDualHybridGradient, flaky("proxfc", proxfc), flaky("proxg", pg_), flaky("A", Apd),
                                                flaky("AH", AHpd), x, u, tau, sigma,
                                                theta=sysd.get("theta", 1), gamma_dual=gd, max_iter=mi, tol=0)
            S.site = "PrimalDualHybridGradient"
            S.solution = lambda: [S.alg.x]
        elif kind == "altmin":
            k1 = max(1, n // 2)
            B, C = M[:, :k1], M[:, k1:]
            p = np.zeros(k1, dtype=dt)
            q = np.zeros(n - k1, dtype=dt)

            def min1():
                p[...] = np.linalg.lstsq(B, y - C @ q, rcond=None)[0]

            def min2():
                if q.size:
                    q[...] = np.linalg.lstsq(C, y - B @ p, rcond=None)[0]
            S.alg = construct("AltMin", A_.AltMin, min1, min2, max_iter=mi)
            S.extra = [p, q]
            S.site = "AltMin"
            S.solution = lambda: [p, q]
        elif kind == "alm":
            # min 1/2||x - c||^2  s.t.  H x = d,  x <= e  (real data)
            Mr = np.real(M)
            c = np.real(x0) + 1.0
            H = Mr[:1, :]
            d = np.real(y[:1])
            e = np.full(n, 0.75)
            x = np.zeros(n)
            u = np.zeros(n)
            v = np.zeros(1)
            mu = 1.0

            def minL():
                z = x.copy()
                for _ in range(25):
                    gr = (z - c) + mu * np.clip(z - e + u / mu, 0, None) + mu * H.T @ (H @ z - d + v / mu)
                    z = z - gr / (1 + mu + mu * float(np.linalg.norm(H) ** 2))
                x[...] = z
            S.alg = A_.AugmentedLagrangianMethod(minL, lambda z: z - e, lambda z: H @ z - d, x, u, v, mu, max_iter=mi)
            S.site = "AugmentedLagrangianMethod"
            S.solution = lambda: [S.alg.x, S.alg.u, S.alg.v]
        elif kind == "admm":
            x = np.zeros(n, dtype=dt)
            z = np.zeros(n, dtype=dt)
            u = np.zeros(n, dtype=dt)
            rho = 1.0
            Hm = MH @ M + rho * np.eye(n)
            px = mk_prox([n])

            def minL_x():
                x[...] = np.linalg.solve(Hm, MH @ y + rho * (z - u))

            def minL_z():
                z[...] = px(1 / rho, x + u)
            I_ = sp.linop.Identity([n])
            S.alg = A_.ADMM(minL_x, minL_z, x, z, u, I_, -I_, 0, max_iter=mi)
            S.site = "ADMM"
            S.solution = lambda: [S.alg.x, S.alg.z, S.alg.u]
        elif kind == "sdmm":
            Mr = np.real(M).astype(np.complex128) if not sysd["complex"] else M.astype(np.complex128)
            Aop = sp.linop.MatMul([n, 1], Mr)
            d = y.reshape(m, 1).astype(np.complex128)
            Ls = [codec.dec(e).astype(np.complex128) for e in sysd["L"]]
            S.alg = A_.SDMM(Aop, d, 0.1, Ls, list(sysd["c"]), 1.0, [1.0] * len(Ls), 1.0, 1.0,
                            eps_pri=sysd["eps"], eps_dual=sysd["eps"], c_max=sysd["c_max"], c_norm=sysd["c_norm"],
                            max_cg_iter=sysd["max_cg_iter"], max_iter=mi)
            S.site = "SDMM"
            S.solution = lambda: [S.alg.x]
        elif kind == "newton":
            Mr = np.real(M)
            Hq = Mr.T @ Mr + 0.5 * np.eye(n)
            cq = np.real(MH @ y)
            if sysd["fkind"] == "quadratic":
                def f(v):
                    return float(0.5 * v @ Hq @ v - cq @ v)

                def gradf(v):
                    return Hq @ v - cq

                def inv_hessf(v):
                    return lambda w: np.linalg.solve(Hq, w)
            else:
                def f(v):
                    return float(0.5 * v @ Hq @ v - cq @ v + np.sum(np.log(np.cosh(v))))

                def gradf(v):
                    return Hq @ v - cq + np.tanh(v)

                def inv_hessf(v):
                    Hv = Hq + np.diag(1 - np.tanh(v) ** 2)
                    return lambda w: np.linalg.solve(Hv, w)
            x = np.real(x0).copy()
            if sysd.get("x0kind") == "exact" and sysd["fkind"] == "quadratic":
                x = np.linalg.solve(Hq, cq)
            S.alg = construct("NewtonsMethod", A_.NewtonsMethod, gradf, inv_hessf, x, beta=sysd["beta"], f=f, max_iter=mi, tol=0)
            S.site = "NewtonsMethod"
            S.solution = lambda: [S.alg.x]
        elif kind == "gs":
            Mc = M.astype(np.complex128)
            Aop = sp.linop.MatMul([n, 1], Mc)
            xt = (np.real(x0) + 1.0).reshape(n, 1).astype(np.complex128)
            yy = np.abs(Mc @ xt)
            xs = np.ones((n, 1), dtype=np.complex128)
            S.alg = construct("GerchbergSaxton", A_.GerchbergSaxton, Aop, yy, xs, max_iter=mi, tol=0, lamb=sysd["lamb"])
            S.site = "GerchbergSaxton"
            S.solution = lambda: [S.alg.x]
        elif kind == "lls":
            if sysd["Aform"] == "identity":
                Aop = sp.linop.Identity([n])
                yv = x0.copy() + 1
            else:
                Aop = sp.linop.MatMul([n, 1], M)
                yv = y.reshape(m, 1).copy()
            shape = Aop.ishape
            kw = {}
            if gk != "none":
                kw["proxg"] = mk_prox(shape)
            if not sysd["defaults"]:
                Lc = float(np.linalg.norm(M, 2) ** 2 + sysd["lamda"]) if sysd["Aform"] != "identity" else 1.0 + sysd["lamda"]
                kw.update(alpha=1 / Lc, tau=1 / Lc, sigma=1.0)
            xdt = yv.dtype
            if sysd.get("x_narrow"):
                xdt = np.complex64 if yv.dtype.kind == "c" else np.float32
            S.app = construct("LinearLeastSquares", sp.app.LinearLeastSquares, Aop, yv, x=np.zeros(shape, dtype=xdt), lamda=sysd["lamda"],
                                              solver=sysd["solver"], max_iter=mi, show_pbar=sysd["show_pbar"],
                                              max_power_iter=5, max_cg_iter=3, **kw)
            S.alg = S.app.alg
            S.site = "LinearLeastSquares." + sysd["solver"]
            S.solution = lambda: [S.app.x]
            S.expected_output = lambda: S.app.x
            if sysd["solver"] == "ConjugateGradient":
                S.breakdown = lambda: bool(S.alg.not_positive_definite)
        elif kind == "l2c":
            Aop = sp.linop.MatMul([n, 1], M)
            yv = y.reshape(m, 1).copy()
            S.app = sp.app.L2ConstrainedMinimization(Aop, yv, sp.prox.L1Reg([n, 1], 1.0), sysd["eps_c"],
                                                     max_iter=mi, show_pbar=sysd["show_pbar"])
            S.alg = S.app.alg
            S.site = "L2ConstrainedMinimization"
            S.solution = lambda: [S.app.x]
            S.expected_output = lambda: S.app.x
        elif kind == "mri":
            self._build_mri(sysd, S)
        else:
            raise ValueError(kind)
        return S

    def _build_mri(self, sysd, S):
        import sigpy as sp
        import sigpy.mri as mr

        shape = sysd["shape"]
        nc = sysd["ncoils"]
        g = np.random.Generator(np.random.PCG64(sysd["rng_seed"]))
        mps = (g.standard_normal([nc] + shape) + 1j * g.standard_normal([nc] + shape)) / 2
        img = g.standard_normal(shape) + 1j * g.standard_normal(shape)
        ksp = sp.fft(mps * img, axes=[-1, -2])
        mi = sysd["max_iter"]
        S.max_iter = mi
        name = sysd["app"]
        pb = sysd["show_pbar"]
        if name == "SenseRecon":
            S.app = mr.app.SenseRecon(ksp, mps, lamda=0.01, max_iter=mi, show_pbar=pb)
        elif name == "L1WaveletRecon":
            S.app = mr.app.L1WaveletRecon(ksp, mps, 0.01, max_iter=mi, show_pbar=pb, max_power_iter=3)
        elif name == "TotalVariationRecon":
            S.app = mr.app.TotalVariationRecon(ksp, mps, 0.01, max_iter=mi, show_pbar=pb, max_power_iter=3)
        elif name == "EspiritCalib":
            S.app = mr.app.EspiritCalib(ksp, calib_width=4, kernel_width=2, max_iter=mi, show_pbar=pb)
        else:
            S.app = mr.app.JsenseRecon(ksp, mps_ker_width=4, ksp_calib_width=4, max_iter=mi, max_inner_iter=2, show_pbar=pb)
        S.alg = S.app.alg
        S.site = "mri." + name
        S.scale = float(np.linalg.norm(ksp) + 1)
        if name in ("SenseRecon", "L1WaveletRecon", "TotalVariationRecon"):
            S.solution = lambda: [S.app.x]
            S.expected_output = lambda: S.app.x
        elif name == "EspiritCalib":
            S.solution = lambda: [S.alg.x]
        else:
            S.solution = lambda: [S.app.mps_ker, S.app.img_ker]

    # --------------------------------------------------------------- execute
    def execute(self, plan):
        res = Result()
        try:
            self._run(plan, res)
        except Violation as v:
            res.violation = v.as_dict()
        except Discard as d:
            res.discarded = d.why
        return res

    def _known(self, inv, site):
        return (inv, site) in getattr(self, "known", set())

    def _flag(self, res, inv, site, step, detail):
        if self._known(inv, site):
            res.known_hits.append({"invariant": inv, "site": site, "detail": codec.jsonable(detail)})
            res.stats["probes.known_finding_hit"] += 1
            return
        raise Violation(inv, site, step, detail)

    def _twin(self, plan, stats):
        """Canonical manual loop on an identically built system (no seams
        needed beyond a fault-free clock/stream for construction)."""
        sysd = plan["sys"]
        with Seams(SimClock(plan.get("clock")), SimStream()):
            T = self.build(sysd, stats)
            digests = [generic_state(T.alg, T.extra)]
            sols = [[np.array(s, copy=True) for s in T.solution()]]
            guard = 0
            while not T.alg.done():
                T.alg.update()
                digests.append(generic_state(T.alg, T.extra))
                sols.append([np.array(s, copy=True) for s in T.solution()])
                guard += 1
                if guard > T.max_iter + 3:
                    break
            tw_out = None
            if T.app is not None and plan.get("style") in ("run", "run_twice", "manual_then_run"):
                try:
                    o = T.app._output()
                    outs = o if isinstance(o, (tuple, list)) else [o]
                    tw_out = [np.array(a, copy=True) for a in outs if isinstance(a, (np.ndarray, float, int, np.generic))]
                except Exception as e:
                    tw_out = ("raised", type(e).__name__)
        return digests, sols, tw_out

    def _run(self, plan, res):
        import tqdm.std

        sysd = plan["sys"]
        stats = res.stats
        trace = res.trace
        clock_spec = copy.deepcopy(plan.get("clock") or {})
        sfaults = []
        for f in plan.get("faults", []):
            if f["seam"] == "clock":
                clock_spec.setdefault("jumps", {})[str(f["at_read"])] = f["delta"]
            elif f["seam"] == "stream":
                sfaults.append({"at_write": f["at_write"], "kind": f["kind"]})
        clock = SimClock(clock_spec)
        stream = SimStream(sfaults)
        self._cb_fault = None
        try:
            tw_digests, tw_sols, tw_out = self._twin(plan, stats)
        except Discard:
            raise
        except Exception as e:  # library raised while building/looping the twin
            tw_digests, tw_sols, tw_out = None, None, None
            stats["probes.twin_raised"] += 1
            twin_exc = e
        acts = []
        injected = None
        cbfaults = [f for f in plan.get("faults", []) if f["seam"] == "callback"]
        self._cb_fault = cbfaults[0] if cbfaults else None
        with Seams(clock, stream):
            try:
                S = self.build(sysd, stats)
            except Discard:
                raise
            except InjectedCallbackFault:
                stats["probes.callback_fault_in_constructor"] += 1
                res.nontrivial = True
                res.fingerprint = codec.json_digest(["ctor_cbfault", sysd["kind"]])
                self._cleanup_tqdm()
                return
            except (OSError, ValueError) as e:
                if not getattr(e, "injected", False):
                    if tw_digests is None:
                        stats["probes.build_rejected"] += 1
                        raise Discard("build_raised:%s" % type(e).__name__)
                    raise Violation("library_raised", sysd["kind"] + ".__init__", -1,
                                    {"type": type(e).__name__, "msg": str(e)[:200]})
                # propagating stream fault during construction (MaxEig bar)
                for kf, c in stream.fired.items():
                    stats["faults_fired.stream_" + kf] += c
                stats["probes.propagated_during_construction"] += 1
                res.nontrivial = True
                res.fingerprint = codec.json_digest(["ctor_epipe", sysd["kind"]])
                self._cleanup_tqdm()
                return
            except Exception as e:
                if tw_digests is None:
                    # consistently rejected instance: recorded, not judged
                    stats["probes.build_rejected"] += 1
                    raise Discard("build_raised:%s" % type(e).__name__)
                raise Violation("library_raised", sysd["kind"] + ".__init__", -1,
                                {"type": type(e).__name__, "msg": str(e)[:200]})
            if tw_digests is None:
                raise Violation("library_raised", S.site + ".update", -1,
                                {"type": type(twin_exc).__name__, "msg": str(twin_exc)[:300], "where": "canonical loop"})
            site = S.site
            alg = S.alg
            mi = S.max_iter
            st = {"u": 0, "first_done": None, "pm": []}

            def check_twin(step):
                k = st["u"]
                if st.get("torn"):
                    return  # an update was abandoned half way: the canonical run is no reference any more
                if k < len(tw_digests):
                    if generic_state(alg, S.extra) != tw_digests[k]:
                        self._flag(res, "state_differs_from_canonical_run", site, step, {"updates": k})

            def update(step, judged=True):
                it0 = alg.iter
                done_before = bool(alg.done()) if self._cb_fault else None
                try:
                    alg.update()
                except Violation:
                    raise
                except Exception as e:
                    if getattr(e, "injected", False):
                        # transient callback failure inside the update: the caller carries on
                        st["torn"] = True
                        stats["probes.update_abandoned_half_way"] += 1
                        trace.append({"a": "U", "fault": "callback"})
                        # an update that did not complete cannot have met a stopping criterion
                        if done_before is False and alg.iter < mi and bool(alg.done()):
                            raise Violation("abandoned_update_stops_the_loop", type(alg).__name__, step,
                                            {"iter": alg.iter, "max_iter": mi, "callback": self._cb_fault["cb"]})
                        return
                    raise Violation("library_raised", site + ".update", step,
                                    {"type": type(e).__name__, "msg": str(e)[:300]})
                st["u"] += 1
                stats["steps"] += 1
                stats["updates"] += 1
                if alg.iter != it0 + 1:
                    self._flag(res, "iter_advances_by_one", type(alg).__name__, step,
                               {"iter_before": it0, "iter_after": alg.iter, "updates": st["u"]})
                elif alg.iter != st["u"]:
                    self._flag(res, "iter_counts_updates", site, step, {"iter": alg.iter, "updates": st["u"]})
                if S.power is not None:
                    e = float(alg.max_eig)
                    pm = st["pm"]
                    lmax = S.power["lmax"]
                    if not np.isfinite(e):
                        raise Violation("power_estimate_not_finite", site, step, {"k": st["u"], "e": e})
                    # the first estimate is exempt: the start vector is not normalised
                    if len(pm) >= 2 and e < pm[-1] * (1 - 1e-12) - 1e-300:
                        raise Violation("power_estimate_decreased", site, step,
                                        {"k": st["u"], "e": e, "prev": pm[-1], "lmax": lmax})
                    if len(pm) >= 1 and e > lmax * (1 + 1e-12):
                        raise Violation("power_estimate_exceeds_lmax", site, step,
                                        {"k": st["u"], "e": e, "lmax": lmax})
                    if len(pm) >= 2:
                        res.note_max("power_decrease_over_tol", (pm[-1] - e) / (1e-12 * lmax))
                    if len(pm) >= 1:
                        res.note_max("power_excess_over_tol", (e - lmax) / (1e-12 * lmax))
                    pm.append(e)
                check_twin(step)

            def query(step, a):
                d0 = generic_state(alg, S.extra)
                if a == "D":
                    val = bool(common.lib_call(site + ".done", step, alg.done))
                elif a == "I":
                    val = [int(alg.iter), int(alg.max_iter), repr(type(alg).__name__),
                           sorted(k_ for k_ in vars(alg) if not k_.startswith("_"))[:3]]
                    if S.app is not None:
                        val.append(S.app.alg is alg)
                elif a == "P":
                    val = [codec.qdigest(np.array(s, copy=True)) for s in S.solution()]
                else:
                    val = repr(getattr(alg, "resid", getattr(alg, "residual", None)))[:24]
                stats["steps"] += 1
                if generic_state(alg, S.extra) != d0:
                    raise Violation("query_changed_state", site + "." + {"D": "done", "P": "x", "R": "resid", "I": "attributes"}[a], step,
                                    {"updates": st["u"]})
                trace.append({"a": a, "v": val})
                return val

            def early_stop_check(step):
                """done() is true before max_iter with tol=0: continue and
                require the solution to stay put (or a breakdown flag)."""
                if st["first_done"] is not None:
                    return
                if st.get("torn"):
                    # after an abandoned update the iterate is whatever the interrupted update
                    # left behind; the fixed-point test would blame the library for the fault
                    return
                st["first_done"] = alg.iter
                if alg.iter >= mi:
                    return
                stats["probes.early_stop"] += 1
                if S.breakdown():
                    stats["probes.early_stop_breakdown_flag"] += 1
                    cv = S.curvature() if S.curvature is not None else None
                    if cv is not None:
                        # "a breakdown was detected": on a positive-definite system with a healthy
                        # search direction there is no breakdown to detect
                        self._flag(res, "breakdown_flagged_without_non_positive_curvature", type(alg).__name__, step,
                                   dict(cv, iter=alg.iter, max_iter=mi))
                    return
                if not hasattr(alg, "tol"):
                    # the property conditions early stops on tol=0; SDMM (eps_pri/eps_dual),
                    # and the fixed-budget algorithms have no tol
                    stats["probes.early_stop_alg_without_tol"] += 1
                    return
                s0 = [np.array(s, copy=True) for s in S.solution()]
                single_ = any(isinstance(a_, np.ndarray) and a_.dtype in (np.dtype("float32"), np.dtype("complex64")) for a_ in s0)
                rtol_ = 1e-5 if single_ else 1e-12   # a solution held in single precision rests at its own resolution
                remaining = mi - alg.iter
                worst = 0.0
                # a caller that does not poll done() before every update may already have driven the
                # solver past an exact stop (<r, r> underflowed to 0, then 0/0 in CG's beta): its
                # internal vectors are then non-finite although the solution it holds is not
                poisoned = any(isinstance(v_, np.ndarray) and v_.dtype.kind in "fc" and not np.all(np.isfinite(v_))
                               for v_ in vars(alg).values())
                for j in range(remaining):
                    try:
                        alg.update()
                    except Exception as e:  # continuing past done() may legitimately fail
                        stats["probes.continue_after_done_raised"] += 1
                        break
                    stats["steps"] += 1
                    s1 = S.solution()
                    dev = max(float(np.max(np.abs(np.asarray(a, dtype=np.complex128) - np.asarray(b, dtype=np.complex128))))
                              if np.size(a) else 0.0 for a, b in zip(s1, s0))
                    worst = max(worst, dev)
                    if not np.isfinite(dev) and (j > 0 or poisoned):
                        # the first further update left the solution unchanged; what a solver
                        # does when it is driven on and on past an exact stop (0/0 in CG's beta
                        # once <r, r> has underflowed) is not covered by the statement
                        stats["probes.nonfinite_when_driven_past_exact_stop"] += 1
                        break
                    if not np.isfinite(dev) or dev > rtol_ * S.scale + max(1e-9, rtol_) * max(float(np.max(np.abs(b))) if np.size(b) else 0 for b in s0):
                        self._flag(res, "early_stop_not_fixed_point", type(alg).__name__, step,
                                   {"stopped_at_iter": st["first_done"], "max_iter": mi, "extra_updates": j + 1,
                                    "moved": dev, "scale": S.scale})
                        break
                res.note_max("early_stop_move_over_tol", worst / (1e-12 * S.scale + 1e-300))
                st["continued"] = True

            def loop(step):
                n0 = st["u"]
                while not common.lib_call(site + ".done", step, alg.done):
                    acts.append("U")
                    update(step)
                    if st["u"] - n0 > mi + 3:
                        raise Violation("loop_exceeds_max_iter", site, step, {"updates": st["u"], "max_iter": mi})
                if n0 == 0 and st["u"] > mi:
                    raise Violation("loop_exceeds_max_iter", site, step, {"updates": st["u"], "max_iter": mi})
                early_stop_check(step)

            for step, a in enumerate(plan["schedule"]):
                if st.get("continued"):
                    break
                if a == "u":
                    if bool(common.lib_call(site + ".done", step, alg.done)):
                        early_stop_check(step)
                        continue
                    acts.append("U")
                    update(step)
                elif a == "U":
                    acts.append("U")
                    if alg.iter >= mi + 2:
                        continue
                    update(step)
                elif a == "L":
                    acts.append("L")
                    loop(step)
                    trace.append({"a": "L", "u": st["u"]})
                elif a == "RUN":
                    if "RUN" in acts and not injected:
                        # Apps are documented as run-once: a second run() is only issued to
                        # resume a run that was aborted by a propagating fault
                        continue
                    acts.append("RUN")
                    injected = None
                    if S.app is None:
                        import sigpy as sp
                        S.app = sp.app.App(alg, show_pbar=sysd["show_pbar"], leave_pbar=sysd.get("leave_pbar", True),
                                           record_time=sysd.get("record_time", True))
                    it0 = alg.iter
                    counted = {"n": 0}
                    orig_update = alg.update

                    def counting_update():
                        i0 = alg.iter
                        orig_update()
                        counted["n"] += 1
                        if alg.iter != i0 + 1:
                            self._flag(res, "iter_advances_by_one", type(alg).__name__, step,
                                       {"iter_before": i0, "iter_after": alg.iter, "in": "run()"})
                    alg.update = counting_update
                    try:
                        out = S.app.run()
                    except Violation:
                        raise
                    except Exception as e:
                        if getattr(e, "injected", False):
                            injected = type(e).__name__
                            if isinstance(e, InjectedCallbackFault):
                                st["torn"] = True
                                if alg.iter < mi and bool(alg.done()):
                                    raise Violation("abandoned_update_stops_the_loop", type(alg).__name__, step,
                                                    {"iter": alg.iter, "max_iter": mi, "in": "run()"})
                            out = None
                        else:
                            rs = site + ".run" + ("[max_iter=0]" if mi == 0 else "")
                            self._flag(res, "library_raised", rs, step,
                                       {"type": type(e).__name__, "msg": str(e)[:300]})
                            injected = "known"
                            out = None
                    finally:
                        del alg.update
                    st["u"] += counted["n"]
                    stats["steps"] += counted["n"] + 1
                    stats["updates"] += counted["n"]
                    if st["u"] > mi:
                        raise Violation("run_exceeds_max_iter", site + ".run", step, {"updates": st["u"], "max_iter": mi})
                    if injected:
                        stats["probes.run_aborted_by_propagating_stream_fault"] += 1
                        if alg.iter > mi:
                            stats["probes.epipe_iter_beyond_max_iter"] += 1
                    else:
                        if not alg.done():
                            raise Violation("run_returned_before_done", site + ".run", step, {"iter": alg.iter})
                        if S.expected_output is not None:
                            exp = S.expected_output()
                            same = (out is exp) or (np.isscalar(exp) and out == exp)
                            if not same:
                                raise Violation("run_output_not_held_solution", site + ".run", step,
                                                {"type_out": type(out).__name__})
                        # the returned object is what the algorithm itself holds
                        ax = getattr(alg, "x", None)
                        if isinstance(out, np.ndarray) and isinstance(ax, np.ndarray) and out.size == ax.size \
                                and sysd["kind"] in ("lls", "l2c"):
                            if codec.bytes_digest(np.asarray(out).ravel().astype(np.complex128)) != \
                                    codec.bytes_digest(ax.ravel().astype(np.complex128)):
                                raise Violation("run_output_not_held_solution", site + ".run", step,
                                                {"why": "returned array differs from the solver's x"})
                        # equals the twin's manual loop
                        kk = min(st["u"], len(tw_sols) - 1)
                        if st.get("torn"):
                            pass
                        elif st["u"] != len(tw_sols) - 1:
                            self._flag(res, "run_update_count_differs_from_manual_loop", site + ".run", step,
                                       {"run": st["u"], "manual": len(tw_sols) - 1})
                        elif isinstance(tw_out, list):
                            # run() must return what the manual loop followed by the app's own
                            # output step returns
                            outs = out if isinstance(out, (tuple, list)) else [out]
                            outs = [a1 for a1 in outs if isinstance(a1, (np.ndarray, float, int, np.generic))]
                            nrun = acts.count("RUN")

                            def same_(a1, b1):
                                a1, b1 = np.asarray(a1), np.asarray(b1)
                                if nrun <= 1:
                                    return codec.bytes_digest(a1) == codec.bytes_digest(b1)
                                # a repeated run() re-applies the app's in-place output step
                                # (EspiritCalib's phase normalisation): equal up to rounding
                                if a1.shape != b1.shape:
                                    return False
                                if np.array_equal(a1, b1, equal_nan=True):
                                    return True
                                fin = np.isfinite(b1)
                                if not np.array_equal(fin, np.isfinite(a1)):
                                    return False
                                a1, b1 = np.where(fin, a1, 0), np.where(fin, b1, 0)
                                sc = float(np.max(np.abs(b1))) if b1.size else 0.0
                                return bool(np.all(np.abs(a1.astype(np.complex128) - b1.astype(np.complex128)) <= 1e-12 * sc + 1e-300))
                            if len(outs) != len(tw_out) or any(not same_(a1, b1) for a1, b1 in zip(outs, tw_out)):
                                self._flag(res, "run_result_differs_from_manual_loop", site + ".run", step, {"run_number": nrun})
                        else:
                            for a1, b1 in zip(S.solution(), tw_sols[kk]):
                                if codec.bytes_digest(np.asarray(a1)) != codec.bytes_digest(np.asarray(b1)):
                                    self._flag(res, "run_result_differs_from_manual_loop", site + ".run", step, {})
                                    break
                        early_stop_check(step)
                    trace.append({"a": "RUN", "u": counted["n"], "clock_reads": clock.reads,
                                  "writes": stream.writes, "aborted": injected})
                else:
                    acts.append(a)
                    v = query(step, a)
                    if a == "D" and v:
                        early_stop_check(step)
            for kf, c in stream.fired.items():
                stats["faults_fired.stream_" + kf] += c
            if stream.fired and any(kk in stream.fired for kk in ("eio", "closed")):
                stats["probes.stream_fault_absorbed_by_tqdm"] += 1
            stats["faults_fired.clock_jump"] += clock.jumps_fired
            stats["clock_reads"] += clock.reads
            stats["stream_writes"] += stream.writes
            res.sim_time = clock.elapsed
        self._cleanup_tqdm()
        res.nontrivial = st["u"] > 0 or len(plan["schedule"]) > 0
        res.fingerprint = codec.json_digest([
            sysd["kind"], sysd.get("solver"), sysd.get("app"), sysd["complex"], sysd["n"], sysd["m"], sysd["max_iter"],
            sysd.get("gkind"), sysd.get("x0kind"), sysd.get("accelerate"), sysd.get("steps"), sysd.get("gamma"), sysd.get("theta"), sysd.get("pdhg_form"), bool(sysd.get("x_narrow")), sysd.get("scale"),
            sysd.get("form"), sysd.get("show_pbar"), bool(sysd.get("interfere")), bool(sysd.get("iterprox")), plan.get("style"),
            [(f["seam"], f.get("kind", "jump")) for f in plan.get("faults", [])],
            common.compress_actions(acts)[:40],
        ])

    @staticmethod
    def _cleanup_tqdm():
        import tqdm.std

        for inst in list(getattr(tqdm.std.tqdm, "_instances", [])):
            try:
                inst.close()
            except Exception:
                pass
        try:
            tqdm.std.tqdm._instances.clear()
        except Exception:
            pass

    # ---------------------------------------------------------------- shrink
    def shrink_candidates(self, plan, violation):
        sysd = plan["sys"]

        def mod(**kw):
            p = copy.deepcopy(plan)
            p["sys"].update(kw)
            return p
        if sysd.get("show_pbar"):
            yield mod(show_pbar=False)
        if sysd.get("interfere"):
            yield mod(interfere=False)
        if sysd.get("iterprox"):
            yield mod(iterprox=False)
        if sysd["max_iter"] > 0:
            yield mod(max_iter=sysd["max_iter"] - 1)
        if sysd.get("complex") and sysd["kind"] in ("gm", "pdhg", "admm", "altmin", "lls", "l2c"):
            p = mod(complex=False)
            for key in ("M", "y", "x0"):
                p["sys"][key] = codec.enc(np.real(codec.dec(sysd[key])).copy())
            yield p
        n, m = sysd["n"], sysd["m"]
        if sysd["kind"] in ("gm", "pdhg", "admm", "l2c") and n > 1:
            p = mod(n=n - 1)
            p["sys"]["M"] = codec.enc(codec.dec(sysd["M"])[:, : n - 1].copy())
            p["sys"]["x0"] = codec.enc(codec.dec(sysd["x0"])[: n - 1].copy())
            yield p
        if sysd["kind"] in ("gm", "pdhg", "admm", "l2c") and m > n:
            p = mod(m=m - 1)
            p["sys"]["M"] = codec.enc(codec.dec(sysd["M"])[: m - 1, :].copy())
            p["sys"]["y"] = codec.enc(codec.dec(sysd["y"])[: m - 1].copy())
            yield p
        for key in ("M", "y", "x0"):
            a = codec.dec(sysd[key])
            r = np.round(a, 1)
            if not np.array_equal(a, r):
                p = mod()
                p["sys"][key] = codec.enc(r)
                yield p
        if sysd.get("steps") == "array":
            yield mod(steps="scalar")
        if sysd.get("gamma") == "dual":
            yield mod(gamma="none")


WORLD = StopWorld()
