"""Shared helpers for worlds: seeded array generation, callback proxies with
buggify behaviours, algorithm state digests."""
import hashlib

import numpy as np

from simkit import codec


def np_gen(rng):
    """numpy Generator with a sub-seed drawn from the plan rng."""
    return np.random.Generator(np.random.PCG64(rng.getrandbits(63)))


def randn(g, shape, complex_, dtype=None, round_=None):
    shape = tuple(shape)
    a = g.standard_normal(shape)
    if complex_:
        a = a + 1j * g.standard_normal(shape)
    if round_ is not None:
        a = np.round(a, round_)
    if dtype is not None:
        a = a.astype(dtype)
    return a


def rand_unitary(g, n, complex_):
    m = randn(g, (n, n), complex_)
    q, r = np.linalg.qr(m)
    d = np.diag(r)
    ph = np.where(np.abs(d) > 0, d / np.where(np.abs(d) > 0, np.abs(d), 1), 1)
    return q * ph


def hpd(g, n, complex_, eigs):
    q = rand_unitary(g, n, complex_)
    a = (q * np.asarray(eigs)) @ q.conj().T
    a = (a + a.conj().T) / 2
    if not complex_:
        a = np.real(a)
    return a, q


class Proxy:
    """Recording proxy around a caller-supplied linear callback.

    ret styles (buggify): fresh | reuse (same preallocated buffer every call)
    | noncontig (Fortran-ordered / strided result).
    """

    def __init__(self, name, fn, ret="fresh", stats=None, interfere=False):
        self.interfere = interfere
        self.name = name
        self.fn = fn
        self.ret = ret
        self.calls = 0
        self.buf = None
        self.stats = stats
        self.fault = None  # callable(call_index, arg, result) -> result or None
        self.log = []

    def __call__(self, *args):
        i = self.calls
        self.calls += 1
        arg = args[-1]
        before = codec.bytes_digest(arg)
        if self.interfere:
            run_other_solvers(arg.shape, arg.dtype, self.stats)
            if codec.bytes_digest(arg) != before:
                # the array this solver handed to its callback was changed by *other* solver
                # instances that merely ran meanwhile: state is shared between instances
                from simkit.world import Violation
                raise Violation("solver_state_shared_between_instances", "callback." + self.name, self.calls,
                                {"callback": self.name, "call": i})
        out = self.fn(*args)
        if self.fault is not None:
            out2 = self.fault(i, arg, out)
            if out2 is not None:
                out = out2
        if codec.bytes_digest(arg) != before:
            raise AssertionError("harness callback %s mutated its argument" % self.name)
        if self.ret == "reuse":
            if self.buf is None or self.buf.shape != out.shape or self.buf.dtype != out.dtype:
                self.buf = np.empty_like(out)
            np.copyto(self.buf, out)
            out = self.buf
            if self.stats is not None:
                self.stats["buggify.reuse_buffer"] += 1
        elif self.ret == "noncontig":
            if out.ndim >= 2:
                out = np.asfortranarray(out)
            else:
                big = np.empty(out.shape[0] * 2, dtype=out.dtype)
                big[::2] = out
                out = big[::2]
            if self.stats is not None:
                self.stats["buggify.noncontig_result"] += 1
        elif out is arg:
            if self.stats is not None:
                self.stats["buggify.alias_returned"] += 1
        return out


def state_digest(obj, names):
    """Exact digest of the named attributes (arrays and scalars) of obj."""
    h = hashlib.blake2b(digest_size=12)
    for n in names:
        if not hasattr(obj, n):
            h.update(b"<none>")
            continue
        v = getattr(obj, n)
        h.update(n.encode())
        if isinstance(v, np.ndarray):
            h.update(codec.bytes_digest(v).encode())
        elif isinstance(v, (list, tuple)):
            for e in v:
                if isinstance(e, np.ndarray):
                    h.update(codec.bytes_digest(e).encode())
                else:
                    h.update(repr(e).encode())
        else:
            h.update(repr(v).encode())
    return h.hexdigest()


def compress_actions(seq):
    """Run-length compress an action-kind sequence for fingerprints."""
    out = []
    for a in seq:
        if out and out[-1][0] == a:
            out[-1][1] += 1
        else:
            out.append([a, 1])
    return "".join("%s%d" % (a, min(c, 3)) for a, c in out)


def lib_call(site, step, fn, *args, judged=True, stats=None, **kw):
    """Call into the library; an exception on a valid, fault-free instance is
    itself a violation (the property promises a result there)."""
    from simkit.world import Violation

    try:
        return fn(*args, **kw)
    except Violation:
        raise
    except AssertionError:
        raise
    except Exception as e:  # noqa
        if judged:
            raise Violation("library_raised", site, step,
                            {"type": type(e).__name__, "msg": str(e)[:300],
                             "cause": repr(getattr(e, "__cause__", None))[:300]})
        if stats is not None:
            stats["probes.library_raised_under_fault"] += 1
        raise LibRaisedUnderFault(e)


class LibRaisedUnderFault(Exception):
    pass


def warm_jit():
    """Canonical warm-up of lazily specialised kernels, narrow -> wide, so that
    in the default configuration a session's behaviour cannot depend on which
    session ran before it in the same worker. (The `history` configurations
    skip this on purpose: there the process history is part of the plan.)"""
    import sigpy as sp

    for dt in (np.float32, np.float64, np.complex64, np.complex128):
        a = np.array([1.5, -0.25, 0.0], dtype=dt)
        lam32 = np.array([0.5, 0.5, 0.5], dtype=np.float32)
        sp.thresh.soft_thresh(0.5, a)
        sp.thresh.hard_thresh(0.5, a)
        if dt in (np.float32, np.complex64):
            sp.thresh.soft_thresh(lam32, a)
        sp.thresh.soft_thresh(lam32.astype(np.float64), a)


def run_other_solvers(shape, dtype, stats=None):
    """Buggify: while one solver is in the middle of an update, *other* solver
    instances of every stepping class run to completion on arrays of the same
    shape and dtype (a user callback is free to do that - e.g. a proximal operator
    evaluated iteratively). They end at exact fixed points. Any state shared
    between solver instances (class-level scratch buffers, module-level caches)
    makes the outer solver misbehave."""
    import sigpy as sp

    c = np.full(shape, 1.5, dtype=dtype)
    x = np.zeros(shape, dtype=dtype)
    gm = sp.alg.GradientMethod(lambda v: v - c, x, 1.0, proxg=lambda a, v: v, accelerate=False, max_iter=4, tol=0)
    while not gm.done():
        gm.update()
    x2 = np.zeros(shape, dtype=dtype)
    gma = sp.alg.GradientMethod(lambda v: v - c, x2, 1.0, accelerate=True, max_iter=4, tol=0)
    while not gma.done():
        gma.update()
    xp_ = np.zeros(shape, dtype=dtype)
    up_ = np.zeros(shape, dtype=dtype)
    pd = sp.alg.PrimalDualHybridGradient(lambda a, v: v / (1 + a), lambda a, v: v, lambda v: v, lambda v: v,
                                         xp_, up_, 0.5, 0.5, max_iter=3, tol=0)
    while not pd.done():
        pd.update()
    xc = np.zeros(shape, dtype=dtype)
    cg = sp.alg.ConjugateGradient(lambda v: 2 * v, c, xc, max_iter=3, tol=0)
    while not cg.done():
        cg.update()
    if stats is not None:
        stats["buggify.other_solvers_ran_inside_callback"] += 1


def iterative_prox(base, stats=None):
    """Buggify: a proximal operator that is evaluated by an inner sigpy solver
    (legal for "any function computing alpha, x -> prox"). The inner problem
    min_z 1/2||z - v||^2 + alpha g(z) is solved by GradientMethod with unit step,
    which reaches prox_{alpha g}(v) exactly after one update and then sits at an
    exact fixed point; the value returned is therefore the exact prox."""
    import sigpy as sp

    def prox(alpha, v):
        z = np.zeros_like(v)
        inner = sp.alg.GradientMethod(lambda w: w - v, z, 1.0, proxg=lambda t, w: base(alpha * t, w),
                                      accelerate=False, max_iter=4, tol=0)
        while not inner.done():
            inner.update()
        if stats is not None:
            stats["buggify.prox_evaluated_by_inner_solver"] += 1
        return z
    return prox


def as_view(a):
    """The caller's array as a strided view of a larger array it owns (in-place
    updates must go through the view; nothing may assume contiguity or ownership)."""
    if a.ndim == 0 or a.shape[-1] == 0:
        return a
    big = np.zeros(a.shape[:-1] + (a.shape[-1] * 2,), dtype=a.dtype)
    big[..., ::2] = a
    return big[..., ::2]


# --------------------------------------------------------------------------- call styles
# Parameter order and defaults of the public constructors / functions AS DOCUMENTED AT THE PINNED
# COMMIT (not introspected from the tree under test: a reordered signature must not go unnoticed).
_REQ = object()
SIGNATURES = {
    "PowerMethod": [("A", _REQ), ("x", _REQ), ("norm_func", None), ("max_iter", 30)],
    "GradientMethod": [("gradf", _REQ), ("x", _REQ), ("alpha", _REQ), ("proxg", None), ("accelerate", False),
                       ("max_iter", 100), ("tol", 0)],
    "ConjugateGradient": [("A", _REQ), ("b", _REQ), ("x", _REQ), ("P", None), ("max_iter", 100), ("tol", 0)],
    "PrimalDualHybridGradient": [("proxfc", _REQ), ("proxg", _REQ), ("A", _REQ), ("AH", _REQ), ("x", _REQ), ("u", _REQ),
                                 ("tau", _REQ), ("sigma", _REQ), ("theta", 1), ("gamma_primal", 0), ("gamma_dual", 0),
                                 ("max_iter", 100), ("tol", 0)],
    "AltMin": [("min1", _REQ), ("min2", _REQ), ("max_iter", 30)],
    "NewtonsMethod": [("gradf", _REQ), ("inv_hessf", _REQ), ("x", _REQ), ("beta", 1), ("f", None), ("max_iter", 10),
                      ("tol", 0)],
    "GerchbergSaxton": [("A", _REQ), ("y", _REQ), ("x0", _REQ), ("max_iter", 500), ("tol", 0), ("max_tol", 0), ("lamb", 0)],
    "LinearLeastSquares": [("A", _REQ), ("y", _REQ), ("x", None), ("proxg", None), ("lamda", 0), ("G", None), ("g", None),
                           ("z", None), ("solver", None), ("max_iter", 100), ("P", None), ("alpha", None),
                           ("max_power_iter", 30), ("accelerate", True), ("tau", None), ("sigma", None), ("rho", 1),
                           ("max_cg_iter", 10), ("tol", 0), ("save_objective_values", False), ("show_pbar", True),
                           ("leave_pbar", True)],
    "poisson": [("img_shape", _REQ), ("accel", _REQ), ("calib", (0, 0)), ("dtype", np.complex128), ("crop_corner", True),
                ("return_density", False), ("seed", 0), ("max_attempts", 30), ("tol", 0.1)],
}


def as_positional(name, args, kwargs):
    """The same call with every argument up to the last one given passed by position, in the
    documented order; parameters the caller left out in between get their documented default."""
    sig = SIGNATURES[name]
    names = [n for n, _ in sig]
    for kname in kwargs:
        if kname not in names:
            return tuple(args), dict(kwargs)  # not expressible by position
    last = len(args) - 1
    for i, (n, _) in enumerate(sig):
        if n in kwargs:
            last = max(last, i)
    out = list(args)
    for i in range(len(args), last + 1):
        n, dflt = sig[i]
        if n in kwargs:
            out.append(kwargs[n])
        elif dflt is _REQ:
            return tuple(args), dict(kwargs)
        else:
            out.append(dflt)
    return tuple(out), {}
