"""Shape-directed generator of operator / prox / function specs for the `ops`
world. Pure Python + numpy (+ pywt for wavelet shapes); never touches sigpy.

A spec is JSON. Array parameters are described by (seed, shape, kind) and are
realised deterministically by `realise_array` (numpy PCG64), so a plan is still
a complete, PRNG-free-to-generate description of the session; this is the one
place where replay files carry seeds instead of explicit numbers (operator
parameters and inputs would otherwise dominate the file size).
"""
import numpy as np

KINDS = ["c128", "c128", "c128", "f64", "f64", "c64", "f32"]
NP_KIND = {"c128": np.complex128, "c64": np.complex64, "f64": np.float64, "f32": np.float32}


def prod(s):
    p = 1
    for v in s:
        p *= int(v)
    return p


def realise_array(a):
    g = np.random.Generator(np.random.PCG64(a["seed"]))
    shape = tuple(a["shape"])
    kind = a.get("kind", "c128")
    sp_ = a.get("special")
    if sp_ == "coord":
        grid = a["grid"]
        out = np.empty(shape, dtype=np.float64)
        for d, n in enumerate(grid):
            out[..., d] = g.uniform(-n / 2 - 1.5, n / 2 + 1.5, size=shape[:-1])
        # some on-grid / half-integer coordinates
        flat = out.reshape(-1, len(grid))
        if flat.shape[0] > 1:
            flat[0] = np.round(flat[0])
            flat[-1] = np.floor(flat[-1]) + 0.5
        return np.round(out, 3)
    if sp_ == "pos":
        return np.round(g.uniform(0.2, 2.0, size=shape), 3).astype(NP_KIND[kind] if kind in ("f64", "f32") else np.float64)
    v = np.round(g.standard_normal(shape), 3)
    if kind in ("c128", "c64"):
        v = v + 1j * np.round(g.standard_normal(shape), 3)
    return (v * a.get("scale", 1.0)).astype(NP_KIND[kind])


def arr(rng, shape, kind=None, **kw):
    d = {"seed": rng.getrandbits(48), "shape": [int(s) for s in shape], "kind": kind or rng.choice(KINDS)}
    d.update(kw)
    return {"arr": d}


def rand_shape(rng, ndim=None, maxside=8, maxelems=400):
    ndim = ndim or rng.choice([1, 1, 2, 2, 2, 3])
    while True:
        s = [rng.choice([1, 2, 3, 3, 4, 4, 5, 6, 7, 8][: maxside + 2]) for _ in range(ndim)]
        if prod(s) <= maxelems:
            return s


# ----------------------------------------------------------------- leaves
def leaf(cls, ishape, oshape_, **p):
    return {"k": "leaf", "cls": cls, "ishape": list(ishape), "p": p}, (list(oshape_) if oshape_ is not None else None)


def _axes_form(rng, axes, nd):
    """An equivalent spelling of an explicit axes argument: negative indices, a tuple instead of
    a list (the documented type is "tuple or list").  Returns keyword items for leaf()."""
    if axes is None:
        return {"axes": None}
    r = rng.random()
    if r < 0.25:
        return {"axes": [a - nd for a in axes]}
    if r < 0.35:
        return {"axes": list(axes), "axes_tuple": True}
    if r < 0.45:
        return {"axes": [a - nd for a in axes], "axes_tuple": True}
    return {"axes": axes}


def gen_leaf(rng, ishape, preserve=False, allow_unknown=True):
    """A leaf operator accepting `ishape`; returns (spec, oshape|None)."""
    nd = len(ishape)
    cands = ["Identity", "FFT", "IFFT", "MultiplyFull", "MultiplyScalar", "Circshift", "Flip", "ResizeSame"]
    if nd == 2:
        cands += ["MatMulSquare"]
    if not preserve:
        cands += ["Reshape", "Transpose", "Resize", "Downsample", "Slice", "MultiplyBcast", "FiniteDifference",
                  "ArrayToBlocks", "Interpolate", "NUFFT", "Tile"]
        if nd >= 2:
            cands += ["Sum", "MatMul", "RightMatMul"]
        if allow_unknown:
            cands += ["Wavelet", "ConvolveData", "ConvolveFilter"]
    cls = rng.choice(cands)
    axes_all = list(range(nd))
    if cls == "Identity":
        return leaf("Identity", ishape, ishape)
    if cls in ("FFT", "IFFT"):
        k = rng.randint(1, nd)
        axes = rng.choice([None, sorted(rng.sample(axes_all, k)), [a - nd for a in sorted(rng.sample(axes_all, k))]])
        return leaf(cls, ishape, ishape, axes=axes, center=rng.random() < 0.7)
    if cls == "MultiplyFull":
        return leaf("Multiply", ishape, ishape, mult=arr(rng, ishape), conj=rng.random() < 0.3)
    if cls == "MultiplyScalar":
        a = rng.choice([[1, 0], [2.5, 0], [0.5, -1.5], [0, 1], [-1, 0.25], [2, 0], [0, 0]])
        # python scalar, numpy scalar (single or double) or 0-d array
        return leaf("Multiply", ishape, ishape, scalar=a, conj=rng.random() < 0.3,
                    scalar_type=rng.choice(["python", "python", "np64", "np32", "zero_d"]))
    if cls == "MultiplyBcast":
        # mult has ones on some axes, or extra leading axis
        mode = rng.choice(["ones", "lead"])
        if mode == "ones":
            ms = [s if rng.random() < 0.5 else 1 for s in ishape]
            return leaf("Multiply", ishape, ishape, mult=arr(rng, ms), conj=rng.random() < 0.3)
        lead = rng.randint(2, 3)
        ms = [lead] + list(ishape)
        return leaf("Multiply", ishape, ms, mult=arr(rng, ms), conj=rng.random() < 0.3)
    if cls == "Circshift" and rng.random() < 0.3:
        return leaf("Circshift", ishape, ishape, shift=[rng.randint(-3, 3) for _ in ishape], axes=None)
    if cls == "Circshift":
        k = rng.randint(1, nd)
        axes = sorted(rng.sample(axes_all, k))
        return leaf("Circshift", ishape, ishape, shift=[rng.randint(-3, 3) for _ in axes], **_axes_form(rng, axes, nd))
    if cls == "Flip":
        k = rng.randint(1, nd)
        axes = rng.choice([None, sorted(rng.sample(axes_all, k))])
        return leaf("Flip", ishape, ishape, **_axes_form(rng, axes, nd))
    if cls == "ResizeSame":
        return leaf("Resize", ishape, ishape, oshape=list(ishape))
    if cls == "MatMulSquare":
        n = ishape[0]
        return leaf("MatMul", ishape, ishape, mat=arr(rng, [n, n]))
    if cls == "Reshape":
        n = prod(ishape)
        opts = [[n], [1, n], [n, 1]]
        for d in range(2, n):
            if n % d == 0:
                opts.append([d, n // d])
        o = rng.choice(opts)
        return leaf("Reshape", ishape, o, oshape=o)
    if cls == "Transpose":
        if rng.random() < 0.3:
            return leaf("Transpose", ishape, ishape[::-1], axes=None)
        perm = axes_all[:]
        rng.shuffle(perm)
        return leaf("Transpose", ishape, [ishape[a] for a in perm], axes=perm)
    if cls == "Resize":
        o = [max(1, s + rng.randint(-2, 3)) for s in ishape]
        p = {"oshape": o}
        if rng.random() < 0.3:
            p["ishift"] = [rng.randint(0, max(0, s - 1) // 2) for s in ishape]
            p["oshift"] = [rng.randint(0, max(0, s - 1) // 2) for s in o]
        return leaf("Resize", ishape, o, **p)
    if cls == "Downsample":
        f = [rng.randint(1, 3) for _ in ishape]
        sh = [rng.randint(0, min(fi - 1, s - 1)) for fi, s in zip(f, ishape)]
        o = [(i - s + fi - 1) // fi for i, fi, s in zip(ishape, f, sh)]
        return leaf("Downsample", ishape, o, factors=f, shift=sh)
    if cls == "Slice":
        idx = []
        o = []
        for s in ishape:
            a = rng.randint(0, s - 1)
            b = rng.randint(a + 1, s)
            st = rng.choice([1, 1, 2])
            idx.append([a, b, st])
            o.append(len(range(a, b, st)))
        if nd == 1 and rng.random() < 0.4:
            return leaf("Slice", ishape, o, idx=idx, bare=True)   # idx given as a bare slice, not a tuple
        return leaf("Slice", ishape, o, idx=idx)
    if cls == "Sum":
        k = rng.randint(1, nd - 1)
        axes = sorted(rng.sample(axes_all, k))
        o = [s for d, s in enumerate(ishape) if d not in axes]
        if rng.random() < 0.3:
            axes = [a - nd for a in axes]
        return leaf("Sum", ishape, o, axes=axes)
    if cls == "Tile":
        # Tile(oshape, axes): ishape = oshape without axes
        ond = nd + 1
        ax = rng.randrange(ond)
        o = list(ishape)
        o.insert(ax, rng.randint(2, 3))
        return leaf("Tile", ishape, o, oshape=o, axes=[ax])
    if cls == "MatMul":
        # ishape [..., n, k]; mat [m, n]
        n = ishape[-2]
        m = rng.randint(1, 5)
        o = list(ishape[:-2]) + [m, ishape[-1]]
        return leaf("MatMul", ishape, o, mat=arr(rng, [m, n]), adjoint=False)
    if cls == "RightMatMul":
        n = ishape[-1]
        m = rng.randint(1, 5)
        o = list(ishape[:-1]) + [m]
        return leaf("RightMatMul", ishape, o, mat=arr(rng, [n, m]))
    if cls == "FiniteDifference":
        k = rng.randint(1, nd)
        axes = rng.choice([None, sorted(rng.sample(axes_all, k))])
        na = nd if axes is None else len(axes)
        return leaf("FiniteDifference", ishape, [na] + list(ishape), **_axes_form(rng, axes, nd))
    if cls == "ArrayToBlocks":
        D = rng.randint(1, min(nd, 3))
        bs, st, nb = [], [], []
        for s in ishape[-D:]:
            b = rng.randint(1, s)
            t = rng.randint(1, max(1, b + 1))
            bs.append(b)
            st.append(t)
            nb.append((s - b + t) // t)
        o = list(ishape[:-D]) + nb + bs
        return leaf("ArrayToBlocks", ishape, o, blk_shape=bs, blk_strides=st)
    if cls in ("Interpolate", "NUFFT"):
        D = rng.randint(1, min(nd, 3))
        pts = rng.choice([[rng.randint(1, 9)], [rng.randint(1, 3), rng.randint(1, 4)]])
        coord = {"arr": {"seed": rng.getrandbits(48), "shape": pts + [D], "special": "coord",
                         "grid": list(ishape[-D:]), "kind": "f64"}}
        o = list(ishape[:-D]) + pts
        if cls == "Interpolate":
            ker = rng.choice(["spline", "spline", "kaiser_bessel"])
            width = rng.choice([1, 2, 2, 3, 2.5])
            param = rng.choice([0, 1, 2]) if ker == "spline" else rng.choice([1.0, 5.0, 8.5])
            if rng.random() < 0.25:
                # per-axis widths / parameters (documented as "float or tuple of floats")
                width = [rng.choice([1, 2, 3, 2.5]) for _ in range(D)]
                param = [rng.choice([0, 1, 2]) if ker == "spline" else rng.choice([1.0, 5.0]) for _ in range(D)]
            return leaf("Interpolate", ishape, o, coord=coord, kernel=ker, width=width, param=param)
        return leaf("NUFFT", ishape, o, coord=coord, oversamp=rng.choice([1.25, 1.25, 1.5, 2.0]),
                    width=rng.choice([4, 4, 3, 5]), toeplitz=rng.random() < 0.4)
    if cls == "Wavelet":
        k = rng.randint(1, nd)
        axes = rng.choice([None, sorted(rng.sample(axes_all, k))])
        return leaf("Wavelet", ishape, None, **_axes_form(rng, axes, nd), wave_name=rng.choice(["db4", "haar", "db2", "sym3"]),
                    level=rng.choice([None, 1, 2]))
    if cls in ("ConvolveData", "ConvolveFilter"):
        mc = rng.random() < 0.4 and nd >= 2
        D = rng.randint(1, min(nd - (1 if mc else 0), 2)) if nd - (1 if mc else 0) >= 1 else 1
        mode = rng.choice(["full", "valid"])
        strides = rng.choice([None, None, [rng.randint(1, 2) for _ in range(D)]])
        if cls == "ConvolveData":
            m = ishape[-D:]
            if mode == "valid":
                n = [rng.randint(1, s) for s in m]
            else:
                n = [rng.randint(1, 4) for _ in m]
            if mc:
                ci = ishape[-D - 1]
                fs = [rng.randint(1, 3), ci] + n
            else:
                fs = n
            return leaf("ConvolveData", ishape, None, filt=arr(rng, fs), mode=mode, strides=strides, multi_channel=mc)
        # ConvolveFilter: ishape is the filter shape; data is the captured array
        if mc:
            if nd < D + 2:
                return leaf("Identity", ishape, ishape)
            n = ishape[-D:]
            ci = ishape[-D - 1]
            m = [s + rng.randint(0, 3) for s in n]
            ds = [ci] + m
            if rng.random() < 0.5:
                ds = [rng.randint(1, 2)] + ds
        else:
            D = nd
            if D > 3:
                return leaf("Identity", ishape, ishape)
            n = ishape
            m = [s + rng.randint(0, 3) for s in n]
            ds = m if rng.random() < 0.6 else [rng.randint(1, 2)] + m
            strides = None if strides is None else [rng.randint(1, 2) for _ in range(D)]
        return leaf("ConvolveFilter", ishape, None, data=arr(rng, ds), mode=mode, strides=strides, multi_channel=mc)
    raise AssertionError(cls)


def gen_factory(rng):
    """MRI operator factories (top level only). Returns (spec, ishape, oshape|None)."""
    f = rng.choice(["Sense", "Sense", "SenseNoncart", "SenseBatch", "ConvSense", "ConvImage", "Ptx"])
    if f in ("Sense", "SenseNoncart", "SenseBatch"):
        nc = rng.randint(1, 4)
        img = rand_shape(rng, rng.choice([2, 2, 3]), maxside=6, maxelems=120)
        p = {"mps": arr(rng, [nc] + img, kind=rng.choice(["c128", "c128", "c64"]))}
        o = [nc] + img
        if f == "SenseNoncart":
            npts = rng.randint(1, 10)
            p["coord"] = {"arr": {"seed": rng.getrandbits(48), "shape": [npts, len(img)], "special": "coord",
                                  "grid": img, "kind": "f64"}}
            o = [nc, npts]
            if rng.random() < 0.5:
                p["weights"] = {"arr": {"seed": rng.getrandbits(48), "shape": [npts], "special": "pos", "kind": "f64"}}
        elif rng.random() < 0.4:
            p["weights"] = {"arr": {"seed": rng.getrandbits(48), "shape": img, "special": "pos", "kind": "f64"}}
        if f == "SenseBatch" or rng.random() < 0.3:
            p["coil_batch_size"] = rng.randint(1, max(1, nc))
        return {"k": "leaf", "cls": "Sense", "ishape": img, "p": p}, img, o
    if f == "ConvSense":
        nd = 2
        ik = [rng.randint(2, 5) for _ in range(nd)]
        nc = rng.randint(1, 3)
        mk = [rng.randint(1, min(3, s)) for s in ik]
        p = {"img_ker_shape": ik, "mps_ker": arr(rng, [nc] + mk)}
        return {"k": "leaf", "cls": "ConvSense", "ishape": ik, "p": p}, ik, None
    if f == "ConvImage":
        nd = 2
        nc = rng.randint(1, 3)
        mk = [rng.randint(1, 3) for _ in range(nd)]
        ik = [s + rng.randint(0, 3) for s in mk]
        p = {"mps_ker_shape": [nc] + mk, "img_ker": arr(rng, ik)}
        return {"k": "leaf", "cls": "ConvImage", "ishape": [nc] + mk, "p": p}, [nc] + mk, None
    nc = rng.randint(1, 3)
    dim = rng.randint(2, 5)
    nt = rng.randint(1, 6)
    p = {"sens": arr(rng, [nc, dim, dim], kind="c128"),
         "coord": {"arr": {"seed": rng.getrandbits(48), "shape": [nt, 2], "special": "coord", "grid": [dim, dim], "kind": "f64"}},
         "dt": 4e-6, "img_shape": [dim, dim]}
    return {"k": "leaf", "cls": "PtxSpatialExplicit", "ishape": [nc, nt], "p": p}, [nc, nt], [dim, dim]


def gen_like(rng, spec):
    """Same class and shapes, re-drawn array parameters (for A + B)."""
    import copy

    s = copy.deepcopy(spec)

    def redraw(o):
        if isinstance(o, dict):
            if "arr" in o and isinstance(o["arr"], dict) and "seed" in o["arr"]:
                o["arr"]["seed"] = rng.getrandbits(48)
            else:
                for v in o.values():
                    redraw(v)
        elif isinstance(o, list):
            for v in o:
                redraw(v)
    redraw(s)
    return s


def gen_tree(rng, depth, ishape=None):
    """Returns (spec, ishape, oshape|None)."""
    if ishape is None:
        ishape = rand_shape(rng)
    if depth <= 0 or rng.random() < 0.25:
        if rng.random() < 0.12:
            return gen_factory(rng)
        sp_, o = gen_leaf(rng, ishape)
        return sp_, list(ishape), o
    kind = rng.choice(["compose", "compose", "add", "sub", "neg", "scale", "scale", "conj", "hstack", "vstack", "diag", "H", "N"])
    if kind == "compose":
        b, bi, bo = gen_tree(rng, depth - 1, ishape)
        if bo is None:
            return b, bi, bo
        a, ai, ao = gen_tree(rng, depth - 1, bo)
        if ai != bo:  # factory ignored the requested shape
            return b, bi, bo
        return {"k": "compose", "ops": [a, b]}, bi, ao
    if kind in ("add", "sub"):
        a, ai, ao = gen_tree(rng, depth - 1, ishape)
        if ao is not None and ao == ai and rng.random() < 0.6:
            b, _ = gen_leaf(rng, ai, preserve=True)
        else:
            b = gen_like(rng, a)
        return {"k": kind, "ops": [a, b]}, ai, ao
    if kind == "neg":
        a, ai, ao = gen_tree(rng, depth - 1, ishape)
        return {"k": "neg", "op": a}, ai, ao
    if kind == "scale":
        a, ai, ao = gen_tree(rng, depth - 1, ishape)
        sc = rng.choice([[2.0, 0.0], [0.5, 1.5], [0.0, -1.0], [-1.25, 0.75], [1.0, 0.0]])
        return {"k": "scale", "a": sc, "side": rng.choice(["l", "r", "r"]), "op": a}, ai, ao
    if kind == "conj":
        a, ai, ao = gen_tree(rng, depth - 1, ishape)
        return {"k": "conj", "op": a}, ai, ao
    if kind in ("H", "N"):
        a, ai, ao = gen_tree(rng, depth - 1, ishape)
        if kind == "N":
            return {"k": "N", "op": a}, ai, ai
        return {"k": "H", "op": a}, ao, ai
    nops = rng.randint(2, 3)
    if kind == "hstack":
        # same oshape; keep it simple: shape-preserving blocks of shape S
        S = ishape
        ops = [gen_leaf(rng, S, preserve=True)[0] for _ in range(nops)]
        axis = rng.choice([None, None] + list(range(len(S))))
        if axis is None:
            ish = [prod(S) * nops]
        else:
            ish = list(S)
            ish[axis] = S[axis] * nops
        return {"k": "hstack", "ops": ops, "axis": axis}, ish, list(S)
    if kind == "vstack":
        S = ishape
        if rng.random() < 0.5:
            ops = [gen_leaf(rng, S, preserve=True)[0] for _ in range(nops)]
            axis = rng.choice([None] + list(range(len(S))))
            if axis is None:
                osh = [prod(S) * nops]
            else:
                osh = list(S)
                osh[axis] = S[axis] * nops
            return {"k": "vstack", "ops": ops, "axis": axis}, list(S), osh
        subs = [gen_leaf(rng, S, allow_unknown=False) for _ in range(nops)]
        osh = [sum(prod(o) for _, o in subs)]
        return {"k": "vstack", "ops": [s for s, _ in subs], "axis": None}, list(S), osh
    # diag
    if rng.random() < 0.5:
        S = ishape
        ops = [gen_leaf(rng, S, preserve=True)[0] for _ in range(nops)]
        ax = rng.choice([None] + list(range(len(S))))
        if ax is None:
            return {"k": "diag", "ops": ops, "iaxis": None, "oaxis": None}, [prod(S) * nops], [prod(S) * nops]
        sh = list(S)
        sh[ax] = S[ax] * nops
        return {"k": "diag", "ops": ops, "iaxis": ax, "oaxis": ax}, sh, list(sh)
    subs = []
    for _ in range(nops):
        s_i = rand_shape(rng, maxelems=60)
        sp_, o = gen_leaf(rng, s_i, allow_unknown=False)
        subs.append((sp_, s_i, o))
    return ({"k": "diag", "ops": [s for s, _, _ in subs], "iaxis": None, "oaxis": None},
            [sum(prod(i) for _, i, _ in subs)], [sum(prod(o) for _, _, o in subs)])


# ------------------------------------------------------------------- prox
def gen_prox(rng, shape=None, depth=1):
    shape = shape or rand_shape(rng, maxelems=60)
    kinds = ["L1Reg", "L2Reg", "L2RegY", "L2Proj", "LInfProj", "LInfProjBias", "L1Proj", "BoxConstraint", "NoOp"]
    if depth > 0:
        kinds += ["Conj", "Stack", "UnitaryTransform", "L2RegProxh"]
    if len(shape) == 2 and shape[0] == shape[1]:
        kinds += ["PsdProj"]
    k = rng.choice(kinds)
    lam = round(10 ** rng.uniform(-1.5, 0.5), 3)
    if k == "L1Reg":
        return {"cls": "L1Reg", "shape": shape, "lamda": lam}
    if k == "L2Reg":
        return {"cls": "L2Reg", "shape": shape, "lamda": lam}
    if k == "L2RegY" and rng.random() < 0.3:
        return {"cls": "L2Reg", "shape": shape, "lamda": lam, "y_scalar": round(rng.uniform(-1, 1), 3)}
    if k == "L2RegY":
        return {"cls": "L2Reg", "shape": shape, "lamda": lam, "y": arr(rng, shape)}
    if k == "L2RegProxh":
        return {"cls": "L2Reg", "shape": shape, "lamda": lam, "y": arr(rng, shape) if rng.random() < 0.5 else None,
                "proxh": gen_prox(rng, shape, depth - 1)}
    if k == "L2Proj":
        return {"cls": "L2Proj", "shape": shape, "epsilon": round(rng.uniform(0.1, 5), 3),
                "y": arr(rng, shape) if rng.random() < 0.5 else None}
    if k == "LInfProj":
        return {"cls": "LInfProj", "shape": shape, "epsilon": round(rng.uniform(0.1, 2), 3)}
    if k == "LInfProjBias":
        return {"cls": "LInfProj", "shape": shape, "epsilon": round(rng.uniform(0.1, 2), 3), "bias": arr(rng, shape)}
    if k == "L1Proj":
        return {"cls": "L1Proj", "shape": shape, "epsilon": round(rng.uniform(0.1, 20), 3)}
    if k == "BoxConstraint":
        if rng.random() < 0.3:
            return {"cls": "BoxConstraint", "shape": shape, "lower_arr": arr(rng, shape, kind="f64"), "width": 0.8, "real_only": True}
        return {"cls": "BoxConstraint", "shape": shape, "lower": -0.5, "upper": 0.75, "real_only": True}
    if k == "NoOp":
        return {"cls": "NoOp", "shape": shape}
    if k == "PsdProj":
        return {"cls": "PsdProj", "shape": shape}
    if k == "Conj":
        return {"cls": "Conj", "prox": gen_prox(rng, shape, depth - 1)}
    if k == "Stack":
        return {"cls": "Stack", "proxs": [gen_prox(rng, None, depth - 1) for _ in range(rng.randint(1, 3))]}
    # UnitaryTransform with a unitary operator of the same shape
    u = rng.choice(["FFT", "IFFT", "Circshift", "Identity"])
    if u == "Circshift":
        op = {"k": "leaf", "cls": "Circshift", "ishape": shape, "p": {"shift": [1] * len(shape), "axes": list(range(len(shape)))}}
    elif u == "Identity":
        op = {"k": "leaf", "cls": "Identity", "ishape": shape, "p": {}}
    else:
        op = {"k": "leaf", "cls": u, "ishape": shape, "p": {"axes": None, "center": True}}
    return {"cls": "UnitaryTransform", "prox": gen_prox(rng, shape, depth - 1), "A": op}


def prox_shape(spec):
    c = spec["cls"]
    if c == "Conj":
        return prox_shape(spec["prox"])
    if c == "Stack":
        return [sum(prod(prox_shape(p)) for p in spec["proxs"])]
    if c == "UnitaryTransform":
        return prox_shape(spec["prox"])
    return spec["shape"]


# -------------------------------------------------------------- functions
FUNCTIONS = [
    "fft", "ifft", "nufft", "nufft_adjoint", "toeplitz_psf", "estimate_shape", "interpolate", "gridding",
    "convolve", "convolve_data_adjoint", "convolve_filter_adjoint", "array_to_blocks", "blocks_to_array",
    "fwt", "iwt", "soft_thresh", "hard_thresh", "l1_proj", "l2_proj", "linf_proj", "psd_proj", "vec", "split",
    "rss", "resize", "flip", "circshift", "downsample", "upsample", "monte_carlo_sure", "leja", "to_device",
    "get_cov", "whiten", "apply_tseg", "axpy", "xpay", "copyto",
]


def gen_fn(rng):
    name = rng.choice(FUNCTIONS)
    return {"name": name, "seed": rng.getrandbits(48), "kind": rng.choice(KINDS)}
