"""Argument generators for sigpy's public array functions (ops world).
make_call(name, seed, kind) -> (callable, args, kwargs, documented_outputs)"""
import numpy as np

from . import opgen


def _arr(g, shape, kind):
    v = np.round(g.standard_normal(shape), 3)
    if kind in ("c128", "c64"):
        v = v + 1j * np.round(g.standard_normal(shape), 3)
    v = v.astype(opgen.NP_KIND[kind])
    # caller arrays are not always freshly allocated C-contiguous blocks
    lay = int(g.integers(0, 6))
    if lay == 0 and v.ndim >= 2:
        return np.asfortranarray(v)
    if lay == 1 and v.ndim >= 1 and v.shape[-1] > 0:
        big = np.zeros(v.shape[:-1] + (v.shape[-1] * 2,), dtype=v.dtype)
        big[..., ::2] = v
        return big[..., ::2]
    if lay == 2 and v.ndim >= 1:
        return np.ascontiguousarray(v[..., ::-1])[..., ::-1]
    return v


def _shape(g, nd=None, lo=1, hi=7):
    nd = nd or int(g.integers(1, 4))
    return [int(g.integers(lo, hi + 1)) for _ in range(nd)]


def _coord(g, pts, grid):
    out = np.empty(tuple(pts) + (len(grid),))
    for d, n in enumerate(grid):
        out[..., d] = g.uniform(-n / 2 - 1, n / 2 + 1, size=tuple(pts))
    return np.round(out, 3)


def make_call(name, seed, kind):
    import sigpy as sp
    import sigpy.mri

    g = np.random.Generator(np.random.PCG64(seed))
    ckind = kind if kind in ("c128", "c64") else ("c128" if kind == "f64" else "c64")
    if name in ("fft", "ifft"):
        sh = _shape(g)
        x = _arr(g, sh, kind)
        kw = {"center": bool(g.integers(0, 2)), "norm": [None, "ortho"][int(g.integers(0, 2))]}
        if g.random() < 0.5:
            k = int(g.integers(1, len(sh) + 1))
            kw["axes"] = sorted(int(a) for a in g.choice(len(sh), size=k, replace=False))
        if g.random() < 0.3 and kw["center"] and "axes" not in kw:
            kw["oshape"] = [max(1, s + int(g.integers(-1, 3))) for s in sh]
        return getattr(sp, name), [x], kw, []
    if name == "nufft":
        nd = int(g.integers(1, 4))
        grid = _shape(g, nd, 2, 6)
        batch = [] if g.random() < 0.6 else [int(g.integers(1, 3))]
        x = _arr(g, batch + grid, kind if kind in ("c128", "c64") else "c128")
        coord = _coord(g, [int(g.integers(1, 8))], grid)
        return sp.nufft, [x, coord], {"oversamp": [1.25, 1.5, 2][int(g.integers(0, 3))], "width": [3, 4, 5][int(g.integers(0, 3))]}, []
    if name == "nufft_adjoint":
        nd = int(g.integers(1, 4))
        grid = _shape(g, nd, 2, 6)
        npts = int(g.integers(1, 8))
        coord = _coord(g, [npts], grid)
        x = _arr(g, [npts], kind if kind in ("c128", "c64") else "c128")
        kw = {"oshape": grid} if g.random() < 0.8 else {}
        return sp.nufft_adjoint, [x, coord], kw, []
    if name == "toeplitz_psf":
        nd = int(g.integers(1, 3))
        grid = _shape(g, nd, 2, 6)
        coord = _coord(g, [int(g.integers(1, 8))], grid)
        return sp.toeplitz_psf, [coord, grid], {}, []
    if name == "estimate_shape":
        grid = _shape(g, int(g.integers(1, 4)), 2, 8)
        return sp.estimate_shape, [_coord(g, [int(g.integers(2, 9))], grid)], {}, []
    if name == "interpolate":
        nd = int(g.integers(1, 4))
        grid = _shape(g, nd, 1, 6)
        batch = [] if g.random() < 0.6 else [int(g.integers(1, 3))]
        x = _arr(g, batch + grid, kind)
        coord = _coord(g, [int(g.integers(1, 8))], grid)
        ker = ["spline", "kaiser_bessel"][int(g.integers(0, 2))]
        return sp.interpolate, [x, coord], {"kernel": ker, "width": [1, 2, 3, 2.5][int(g.integers(0, 4))],
                                            "param": [0, 1, 2][int(g.integers(0, 3))] if ker == "spline" else 5.0}, []
    if name == "gridding":
        nd = int(g.integers(1, 4))
        grid = _shape(g, nd, 1, 6)
        npts = int(g.integers(1, 8))
        batch = [] if g.random() < 0.6 else [int(g.integers(1, 3))]
        x = _arr(g, batch + [npts], kind)
        coord = _coord(g, [npts], grid)
        ker = ["spline", "kaiser_bessel"][int(g.integers(0, 2))]
        return sp.gridding, [x, coord, batch + grid], {"kernel": ker, "width": [1, 2, 3][int(g.integers(0, 3))],
                                                       "param": 1 if ker == "spline" else 5.0}, []
    if name in ("convolve", "convolve_data_adjoint", "convolve_filter_adjoint"):
        D = int(g.integers(1, 3))
        m = _shape(g, D, 2, 6)
        mode = ["full", "valid"][int(g.integers(0, 2))]
        n = [int(g.integers(1, s + 1)) for s in m] if mode == "valid" else _shape(g, D, 1, 3)
        data = _arr(g, m, kind)
        filt = _arr(g, n, kind)
        strides = None if g.random() < 0.6 else [int(g.integers(1, 3)) for _ in range(D)]
        if name == "convolve":
            return sp.convolve, [data, filt], {"mode": mode, "strides": strides}, []
        out = sp.convolve(data, filt, mode=mode, strides=strides)
        y = _arr(g, out.shape, kind)
        if name == "convolve_data_adjoint":
            return sp.convolve_data_adjoint, [y, filt, m], {"mode": mode, "strides": strides}, []
        return sp.convolve_filter_adjoint, [y, data, n], {"mode": mode, "strides": strides}, []
    if name in ("array_to_blocks", "blocks_to_array"):
        D = int(g.integers(1, 4))
        sh = _shape(g, D, 1, 6)
        bs = [int(g.integers(1, s + 1)) for s in sh]
        st = [int(g.integers(1, b + 2)) for b in bs]
        batch = [] if g.random() < 0.6 else [int(g.integers(1, 3))]
        if name == "array_to_blocks":
            return sp.array_to_blocks, [_arr(g, batch + sh, kind), bs, st], {}, []
        nb = [(s - b + t) // t for s, b, t in zip(sh, bs, st)]
        return sp.blocks_to_array, [_arr(g, batch + nb + bs, kind), batch + sh, bs, st], {}, []
    if name == "fwt":
        sh = _shape(g, None, 1, 8)
        return sp.fwt, [_arr(g, sh, kind)], {"wave_name": ["db4", "haar", "sym3"][int(g.integers(0, 3))],
                                           "level": [None, 1, 2][int(g.integers(0, 3))]}, []
    if name == "iwt":
        sh = _shape(g, None, 1, 8)
        wn = ["db4", "haar"][int(g.integers(0, 2))]
        osh, slices = sp.wavelet.get_wavelet_shape(sh, wave_name=wn)
        return sp.iwt, [_arr(g, osh, kind), sh, slices], {"wave_name": wn}, []
    if name in ("soft_thresh", "hard_thresh"):
        sh = _shape(g)
        lam = 0.5 if g.random() < 0.6 else np.round(np.abs(g.standard_normal(sh)), 3).astype(
            np.float32 if kind in ("f32", "c64") else np.float64)
        return getattr(sp, name), [lam, _arr(g, sh, kind)], {}, []
    if name == "l1_proj":
        sh = _shape(g)
        eps = [0.1, 1.0, 100.0][int(g.integers(0, 3))]
        return sp.l1_proj, [eps, _arr(g, sh, kind)], {}, []
    if name == "l2_proj":
        sh = _shape(g)
        kw = {} if g.random() < 0.6 else {"axes": [0]}
        return sp.l2_proj, [[0.1, 1.0, 100.0][int(g.integers(0, 3))], _arr(g, sh, kind)], kw, []
    if name == "linf_proj":
        sh = _shape(g)
        kw = {} if g.random() < 0.5 else {"bias": _arr(g, sh, kind)}
        return sp.linf_proj, [[0.1, 1.0][int(g.integers(0, 2))], _arr(g, sh, kind)], kw, []
    if name == "psd_proj":
        n = int(g.integers(1, 5))
        return sp.psd_proj, [_arr(g, [n, n], "c128" if kind in ("c128", "c64") else "f64")], {}, []
    if name == "vec":
        return sp.vec, [[_arr(g, _shape(g), kind) for _ in range(int(g.integers(1, 4)))]], {}, []
    if name == "split":
        shapes = [_shape(g) for _ in range(int(g.integers(1, 4)))]
        n = sum(int(np.prod(s)) for s in shapes)
        return sp.split, [_arr(g, [n], kind), shapes], {}, []
    if name == "rss":
        sh = _shape(g, int(g.integers(2, 4)))
        return sp.rss, [_arr(g, sh, kind)], {} if g.random() < 0.5 else {"axes": (int(g.integers(-len(sh), len(sh))),)}, []
    if name == "resize":
        sh = _shape(g)
        o = [max(1, s + int(g.integers(-2, 3))) for s in sh] if g.random() < 0.8 else list(sh)
        kw = {}
        if g.random() < 0.3:
            kw = {"ishift": [int(g.integers(0, max(1, s // 2))) for s in sh], "oshift": [int(g.integers(0, max(1, s // 2))) for s in o]}
        return sp.resize, [_arr(g, sh, kind), o], kw, []
    if name == "flip":
        sh = _shape(g)
        return sp.flip, [_arr(g, sh, kind)], {} if g.random() < 0.5 else {"axes": [0]}, []
    if name == "circshift":
        sh = _shape(g)
        if g.random() < 0.4:
            return sp.circshift, [_arr(g, sh, kind), [int(g.integers(-3, 4))]], {"axes": [int(g.integers(-len(sh), len(sh)))]}, []
        return sp.circshift, [_arr(g, sh, kind), [int(g.integers(-3, 4)) for _ in sh]], {}, []
    if name == "downsample":
        sh = _shape(g)
        f = [int(g.integers(1, 4)) for _ in sh]
        kw = {} if g.random() < 0.6 else {"shift": [int(g.integers(0, ff)) for ff in f]}
        return sp.downsample, [_arr(g, sh, kind), f], kw, []
    if name == "upsample":
        sh = _shape(g)
        f = [int(g.integers(1, 4)) for _ in sh]
        ish = [(s + ff - 1) // ff for s, ff in zip(sh, f)]
        return sp.upsample, [_arr(g, ish, kind), sh, f], {}, []
    if name == "monte_carlo_sure":
        sh = _shape(g)
        y = _arr(g, sh, kind)
        return sp.monte_carlo_sure, [lambda v: sp.soft_thresh(0.3, v), y, 0.5], {}, []
    if name == "leja":
        n = int(g.integers(2, 8))
        return sp.leja, [_arr(g, [n], "c128")], {}, []
    if name == "to_device":
        return sp.to_device, [_arr(g, _shape(g), kind)], {}, []
    if name == "get_cov":
        nc = int(g.integers(1, 5))
        sh = [nc] + _shape(g, int(g.integers(1, 3)), 2, 6)
        return sp.mri.util.get_cov, [_arr(g, sh, ckind)], {}, []
    if name == "whiten":
        nc = int(g.integers(1, 4))
        sh = [nc] + _shape(g, int(g.integers(1, 3)), 2, 5)
        b = _arr(g, [nc, nc + 2], "c128")
        cov = b @ b.conj().T + np.eye(nc)
        return sp.mri.util.whiten, [_arr(g, sh, "c128"), cov], {}, []
    if name == "apply_tseg":
        dim = int(g.integers(2, 5))
        nt = int(g.integers(2, 6))
        lseg = int(g.integers(1, 3))
        img = _arr(g, [dim, dim], "c128")
        coord = _coord(g, [nt], [dim, dim]) / 20
        b = _arr(g, [nt, lseg], "c128")
        ct = _arr(g, [dim * dim, lseg], "c128")
        return sp.mri.util.apply_tseg, [img, coord, b, ct], {"fwd": bool(g.integers(0, 2))}, []
    if name in ("axpy", "xpay"):
        sh = _shape(g)
        y = _arr(g, sh, ckind)
        x = _arr(g, sh, kind)
        a = 0.5 if g.random() < 0.5 else _arr(g, sh, "f64" if kind in ("f64", "c128") else "f32")
        return getattr(sp, name), [y, a, x], {}, [y]
    if name == "copyto":
        sh = _shape(g)
        out = _arr(g, sh, ckind)
        return sp.copyto, [out, _arr(g, sh, kind)], {}, [out]
    return None
