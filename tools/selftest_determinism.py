#!/venv/bin/python
"""Determinism self-test: every seed of a world is executed in several fresh
interpreters - different PYTHONHASHSEED, different worker counts - and the
per-seed trace digests must be identical.

usage: tools/selftest_determinism.py <world> [--sessions N]
"""
import argparse
import os
import sys

HERE = os.path.dirname(os.path.dirname(os.path.abspath(__file__)))
sys.path.insert(0, HERE)

from simkit import driver  # noqa: E402


def main():
    ap = argparse.ArgumentParser()
    ap.add_argument("world")
    ap.add_argument("--sessions", type=int, default=2000)
    ap.add_argument("--tier", default="quick")
    ap.add_argument("--seed", type=int, default=0)
    args = ap.parse_args()
    os.makedirs(os.path.join(HERE, "out"), exist_ok=True)
    prop, nq, nt, configs = driver.WORLDS[args.world]
    base = args.seed * 10_000_000
    runs = []
    for hashseed, nworkers in (("0", 16), ("12345", 16), ("7", 5), ("0", 1 if args.sessions <= 400 else 3)):
        res, errs = driver.run_workers(args.world, args.tier, configs, args.sessions, base,
                                       nworkers, "/repo", 3000, digests=True, hashseed=hashseed,
                                       no_shrink=True)
        if errs:
            print("HARNESS-ERROR", errs[:3])
            return 2
        m = driver.merge(res)
        runs.append((hashseed, nworkers, m["digests"]))
        print("run hashseed=%s workers=%d sessions=%d" % (hashseed, nworkers, len(m["digests"])))
    ref = runs[0][2]
    bad = 0
    for hs, nw, d in runs[1:]:
        if set(d) != set(ref):
            print("seed sets differ", hs, nw, len(d), len(ref))
            bad += 1
            continue
        diff = [s for s in ref if ref[s] != d[s]]
        if diff:
            bad += len(diff)
            print("DIVERGENCE hashseed=%s workers=%d: %d seeds differ, e.g. %s" % (hs, nw, len(diff), sorted(diff, key=int)[:10]))
    print("determinism %s: %d seeds x %d runs, divergent=%d" % (args.world, len(ref), len(runs), bad))
    import json
    import time
    rp = os.path.join(HERE, "tools", "determinism_last_result.json")
    try:
        with open(rp) as f:
            rec = json.load(f)
    except Exception:
        rec = {}
    rec[args.world] = {"seeds": len(ref), "runs": [[hs, nw] for hs, nw, _ in runs], "divergent": bad,
                       "at": time.strftime("%Y-%m-%d %H:%M:%S")}
    with open(rp, "w") as f:
        json.dump(rec, f, indent=1, sort_keys=True)
    return 1 if bad else 0


if __name__ == "__main__":
    sys.exit(main())
