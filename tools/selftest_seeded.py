#!/venv/bin/python
"""Sensitivity regression over the independently written breaking changes under
seeded/: each patch is applied to a scratch copy of /repo's HEAD and the world's
quick check must report a violation. (The pinned suite is not re-run here; use
tools/eval_seeded.py for the full confirmation of one change.)

usage: tools/selftest_seeded.py [--only NAME ...]
Writes tools/seeded_last_result.json.
"""
import glob
import json
import os
import subprocess
import sys
import time

HERE = os.path.dirname(os.path.dirname(os.path.abspath(__file__)))


def main():
    only = sys.argv[2:] if len(sys.argv) > 2 and sys.argv[1] == "--only" else None
    out = []
    for d in sorted(glob.glob(os.path.join(HERE, "seeded", "*"))):
        name = os.path.basename(d)
        if only and name not in only:
            continue
        try:
            world = json.load(open(os.path.join(d, "result.json")))["world"]
        except Exception:
            continue
        t0 = time.time()
        p = subprocess.run([os.path.join(HERE, "tools", "eval_seeded.py"), name, world, "--skip-tests"],
                           capture_output=True, text=True, timeout=7200)
        r = json.load(open(os.path.join(d, "result.json")))
        out.append({"name": name, "world": world, "caught": bool(r.get("caught")),
                    "demo_unpatched": r.get("demo_unpatched_exit"), "demo_patched": r.get("demo_patched_exit"),
                    "wall_s": round(time.time() - t0, 1),
                    "first": [c["lines"][:2] for c in r.get("checks", [])]})
        print("%-48s %-5s caught=%s %.0fs" % (name, world, r.get("caught"), time.time() - t0))
        sys.stdout.flush()
    if not only:
        with open(os.path.join(HERE, "tools", "seeded_last_result.json"), "w") as f:
            json.dump({"at": time.strftime("%Y-%m-%d %H:%M:%S"), "results": out}, f, indent=1)
    missed = [o["name"] for o in out if not o["caught"]]
    print("seeded: %d, caught: %d, missed: %s" % (len(out), len(out) - len(missed), missed))
    return 1 if missed else 0


if __name__ == "__main__":
    sys.exit(main())
