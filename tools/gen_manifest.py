#!/usr/bin/env python3
"""Writes /verif/MANIFEST.json from the table below (kept in one place so the
claimed set, the not-applicable list and the commands cannot drift apart)."""
import json
import os

HERE = os.path.dirname(os.path.dirname(os.path.abspath(__file__)))

TECH = ("deterministic simulation with fault injection: seeded plan (system + caller schedule + fault plan) "
        "executed step by step against the real sigpy objects with invariants after every step, "
        "reference-model oracle, ddmin shrink, explicit-number replay")

CLAIMED = {
    "C12": ("cg", "§3 C12",
            "seeded search over (HPD system, preconditioner, callback forms and return styles incl. alias-returning and "
            "buffer-reusing callbacks, other solver instances running inside callbacks, caller arrays narrower than the "
            "data and data narrower than the caller's arrays, caller schedule of update/done/peek incl. overruns past done(), curvature fault at the k-th operator "
            "call); every update of every session is judged against a dense Krylov-optimal reference, breakdown "
            "behaviour under injected non-positive curvature",
            "sampling, not enumeration; dense float64 reference trusted; tolerance tied to a textbook PCG run on the same instance"),
    "C13": ("pg", "§3 C13",
            "seeded search over composite problems, solver options (scalar / array / mixed step layouts, acceleration "
            "modes, max_iter independent of the driven updates), callback forms (closures, sigpy objects, alias-returning "
            "operators, prox evaluated by an inner solver, other solver instances running inside callbacks) and caller "
            "schedules for GradientMethod and PrimalDualHybridGradient, plus process histories run in fresh "
            "interpreters; every update judged against theorem-backed inequalities (descent, O(1/k), O(1/k^2), fixed "
            "points, Fejer monotonicity in the M-norm) and bounded-convergence checks, using a KKT-certified reference",
            "sampling; reference minimiser trusted when its KKT certificate holds (else instance discarded); "
            "accelerated PDHG is only checked for fixed points and convergence, not for its rate"),
    "C14": ("lls", "§3 C14",
            "seeded search over the option cross-product of LinearLeastSquares under simulated RNG history, clock and "
            "progress stream, with operator objects shared with an earlier app and an operator that fails once mid-run "
            "(caller resumes run()), view-returning G operators, integer-typed observations; objective gap to a KKT-certified optimum, ledger over y/z/captured arrays after "
            "every update, twin runs under different RNG histories and under absorbed stream/clock faults",
            "sampling; certified dense reference; iteration budgets fixed per solver"),
    "C15": ("stop", "§3 C15",
            "seeded search over interleavings of done()/update()/peeks and App.run() for every Alg subclass and App, "
            "with clock jumps, sticky and transient stream faults during run() (aborted runs are resumed) and user "
            "callbacks that fail once inside an update; counter, purity-of-queries, budget, early-stop fixed-point, "
            "abandoned-update and power-iteration invariants after every step, twin canonical run",
            "sampling; early-stop judged by continuing the run to max_iter; SDMM explored with eps=0"),
    "C18": ("rng", "§3 C18",
            "seeded histories of process-global numpy RNG use around mri.samp.poisson in JIT and interpreter mode, "
            "including the error path, arguments as tuples / lists / numpy scalars and by position; exact state comparison, "
            "first-call reproducibility table, mask invariants, masks handed out earlier re-verified after every step",
            "sampling; numba's private generator is outside numpy's state by construction (JIT mode)"),
    "C02": ("ops", "§3 C02",
            "seeded sessions over a shared pool of buffers, operators (all CPU Linops, MRI factories, expression "
            "trees, cached .H/.N), prox objects and array functions, with the allocator's recycled memory made non-zero "
            "before every call; buffer ledger after every call, re-application "
            "determinism, C-linearity probes with complex scalars",
            "sampling; raises on shape-valid inputs are recorded, not judged"),
}

NA = {
    "C01": "pure function of (constructor parameters, x, y): the lazily cached .H is observationally constant, no schedule, fault or history can change the verdict; deciding it would be input sweeping, not simulation",
    "C03": "pure function of the expression tree and the input; no state, seam, clock or fault to vary",
    "C04": "pure function of (parameters, x); the .N cache is write-once and order-independent (shortcut normals are exercised indirectly by the lls world's operator zoo)",
    "C05": "pure function of (array, axes, flags): nothing for a scheduler or fault injector to own",
    "C06": "pure function of (array, coordinates, oversamp, width); sequential numba kernels hold no state",
    "C07": "pure function; CPU gridding accumulates sequentially, so there is no interleaving to explore",
    "C08": "pure function of (data, filter, mode, strides)",
    "C09": "pure index maps of their arguments",
    "C10": "pure function of (array, wavelet, axes, level)",
    "C11": "pure function of (parameters, alpha, y); Prox objects hold no mutable state",
    "C16": "operator/batching half is a pure function; the recon half is LinearLeastSquares with a fixed operator and reduces to C14 (claimed); claiming C16 would mean deciding its first half by input sweeping",
    "C17": "deterministic function of (k-space, parameters): fixed all-ones start, no RNG, no callbacks; run() loop semantics are covered under C15",
    "C19": "pure functions of waveforms and positions",
    "C20": "pure functions of four scalars",
}


def main():
    built = [p for p in CLAIMED if os.path.exists(os.path.join(HERE, "worlds", CLAIMED[p][0] + ".py"))]
    checks = []
    for pid in sorted(built):
        w, ref, text, note = CLAIMED[pid]
        checks.append({
            "property_id": pid,
            "quick_cmd": "./check %s --tier quick" % w,
            "thorough_cmd": "./check %s --tier thorough" % w,
            "evidence_file": "/verif/evidence/%s.json" % pid,
            "replay_cmd_template": "./check %s --replay {path}" % w,
            "engine": "simkit",
            "level_claimed": {"category": "exploration", "text": text, "design_ref": "DESIGN.md " + ref},
            "level_note": note,
            "technique": TECH,
        })
    na = [{"property_id": p, "reason": r} for p, r in sorted(NA.items())]
    for pid in sorted(CLAIMED):
        if pid not in built:
            na.append({"property_id": pid, "reason": "simulation target (DESIGN.md %s); its world is not built yet, so not claimed at this commit" % CLAIMED[pid][1]})
    man = {
        "version": 1,
        "setup_cmd": "./setup.sh",
        "hooks": {
            "guard": "SIGPY_VERIF",
            "enable": "no hooks: every seam (caller schedule, callbacks, sigpy.app.time, tqdm.std.time, sys.stderr, numpy global RNG, NUMBA_DISABLE_JIT) is reachable without touching /repo",
            "baseline_off_cmd": "cd /repo && /venv/bin/python -m pytest -ra -q -p no:cacheprovider --timeout=900 --continue-on-collection-errors",
            "source_commits": [],
            "add_only": True,
        },
        "engines": [{
            "name": "simkit", "path": "/verif/simkit", "serves_properties": sorted(built),
            "kind_free_text": "hand-written deterministic simulator (no framework available for Python): seeded plan "
                              "generator, plan interpreter over the real sigpy objects, seams (caller schedule, callback "
                              "proxies with buggify, buffer ledger, simulated clock and stderr stream, global-RNG history, "
                              "process history in fresh interpreters), ddmin shrinker, explicit-number replay files, "
                              "16-process driver"}],
        "checks": checks,
        "not_applicable": sorted(na, key=lambda e: e["property_id"]),
        "notes": "exit 0 = held on everything explored; exit 1 + VIOLATION line = violation with verified replay; exit 2 = harness error (never a pass). "
                 "Genuine defects found are listed in known_findings.json (fixed entries suppress nothing). "
                 "tools/selftest_determinism.py and tools/selftest_mutants.py are the determinism and sensitivity self-tests.",
    }
    with open(os.path.join(HERE, "MANIFEST.json"), "w") as f:
        json.dump(man, f, indent=1)
    print("claimed:", sorted(built))


if __name__ == "__main__":
    main()
