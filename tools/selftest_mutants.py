#!/venv/bin/python
"""Sensitivity self-test: apply each hand-written semantic mutation from
tools/mutants.json to a scratch copy of sigpy/ (outside /repo and /verif,
deleted afterwards), point the workers' import root at the copy and run the
world's quick check; every mutant must be reported as a violation.

usage: tools/selftest_mutants.py [--world W] [--id ID] [--sessions N] [--tier quick]
Writes tools/mutants_last_result.json.
"""
import argparse
import json
import os
import shutil
import subprocess
import sys
import tempfile
import time

HERE = os.path.dirname(os.path.dirname(os.path.abspath(__file__)))


def apply_mutant(m, scratch):
    path = os.path.join(scratch, m["file"])
    with open(path) as f:
        s = f.read()
    edits = m["edits"] if "edits" in m else [{"old": m["old"], "new": m["new"]}]
    for e in edits:
        if s.count(e["old"]) < 1:
            raise RuntimeError("mutant %s: pattern not found: %r" % (m["id"], e["old"]))
        cnt = e.get("count", 1)
        s = s.replace(e["old"], e["new"], cnt)
    with open(path, "w") as f:
        f.write(s)


def main():
    ap = argparse.ArgumentParser()
    ap.add_argument("--world")
    ap.add_argument("--id", action="append")
    ap.add_argument("--sessions", type=int, default=None)
    ap.add_argument("--tier", default="quick")
    ap.add_argument("--keep", action="store_true")
    args = ap.parse_args()
    with open(os.path.join(HERE, "tools", "mutants.json")) as f:
        cat = json.load(f)["mutants"]
    results = []
    for m in cat:
        if args.world and m["world"] != args.world:
            continue
        if args.id and m["id"] not in args.id:
            continue
        scratch = tempfile.mkdtemp(prefix="simkit_mut_")
        cdir = os.path.join(HERE, ".cache")
        caches_before = set(os.listdir(cdir)) if os.path.isdir(cdir) else set()
        try:
            shutil.copytree("/repo/sigpy", os.path.join(scratch, "sigpy"),
                            ignore=shutil.ignore_patterns("__pycache__"))
            try:
                apply_mutant(m, scratch)
            except RuntimeError as ex:
                print("%-40s STALE pattern: %s" % (m["id"], ex))
                results.append({"id": m["id"], "world": m["world"], "caught": False, "expect": "stale", "exit": None,
                                "wall_s": 0, "invariants": [], "note": str(ex)[:200]})
                continue
            cmd = [os.path.join(HERE, "check"), m["world"], "--root", scratch,
                   "--no-evidence", "--tier", args.tier]
            if args.sessions:
                cmd += ["--sessions", str(args.sessions)]
            elif m.get("sessions"):
                cmd += ["--sessions", str(m["sessions"])]
            env = dict(os.environ)
            env["SIMKIT_REPLAY_DIR"] = os.path.join(scratch, "replays")
            t0 = time.time()
            p = subprocess.run(cmd, capture_output=True, text=True, env=env, timeout=3600)
            dt = time.time() - t0
            viol = [l for l in p.stdout.splitlines() if l.startswith("VIOLATION")]
            inv = [l.strip() for l in p.stdout.splitlines() if l.strip().startswith("invariant=")]
            caught = p.returncode == 1 and bool(viol)
            results.append({"id": m["id"], "world": m["world"], "caught": caught,
                            "expect": m.get("expect", "caught"),
                            "exit": p.returncode, "wall_s": round(dt, 1),
                            "invariants": sorted(set(i.split()[0] for i in inv))[:6],
                            "note": m.get("note", "")})
            print("%-40s %-5s caught=%s exit=%d %.0fs %s" % (
                m["id"], m["world"], caught, p.returncode, dt,
                ",".join(sorted(set(i.split()[0].replace("invariant=", "") for i in inv))[:4])))
            if p.returncode == 2:
                print(p.stderr[-1500:])
            sys.stdout.flush()
        finally:
            if not args.keep:
                shutil.rmtree(scratch, ignore_errors=True)
            if os.path.isdir(cdir):
                for d in set(os.listdir(cdir)) - caches_before:
                    shutil.rmtree(os.path.join(cdir, d), ignore_errors=True)
    # clean caches of mutated trees (named by tree sha): keep only the current tree's
    rp = os.path.join(HERE, "tools", "mutants_last_result.json")
    if not (args.world or args.id):
        with open(rp, "w") as f:
            json.dump({"results": results}, f, indent=1, sort_keys=True)
    elif os.path.exists(rp):
        # partial run: refresh the corresponding entries of the last full result
        with open(rp) as f:
            old = json.load(f)
        byid = {r["id"]: r for r in results}
        old["results"] = [byid.pop(r["id"], r) for r in old["results"]] + list(byid.values())
        with open(rp, "w") as f:
            json.dump(old, f, indent=1, sort_keys=True)
    missed = [r["id"] for r in results if not r["caught"] and r["expect"] in ("caught", "stale")]
    print("mutants: %d, caught: %d, missed: %s" % (len(results), len(results) - len(missed), missed))
    return 1 if missed else 0


if __name__ == "__main__":
    sys.exit(main())
