#!/venv/bin/python
"""Confirm and evaluate an independently written breaking change.

usage: tools/eval_seeded.py <name> <world> [--src DIR] [--skip-tests] [--tier quick] [--sessions N]

<name> is the directory under /verif/seeded/ holding patch.diff, demo.py (or
demo_*.py) and meta.json (copied from --src if given). Steps, all in a scratch
copy of /repo's HEAD outside /repo and /verif (removed afterwards):
  1. demo passes on the unpatched copy, 2. patch applies, 3. demo fails with the
  patch, 4. the pinned test-suite still passes with the patch (unless
  --skip-tests), 5. the world's check is run with the patched copy as import
  root and must report a VIOLATION.
The outcome is written to seeded/<name>/result.json.
"""
import argparse
import glob
import json
import os
import shutil
import subprocess
import sys
import tempfile
import time

HERE = os.path.dirname(os.path.dirname(os.path.abspath(__file__)))
PY = "/venv/bin/python"


def run(cmd, cwd, env=None, timeout=3600):
    e = dict(os.environ)
    e.update(env or {})
    p = subprocess.run(cmd, cwd=cwd, env=e, capture_output=True, text=True, timeout=timeout)
    return p.returncode, p.stdout[-4000:], p.stderr[-4000:]


def main():
    ap = argparse.ArgumentParser()
    ap.add_argument("name")
    ap.add_argument("world")
    ap.add_argument("--src")
    ap.add_argument("--skip-tests", action="store_true")
    ap.add_argument("--tier", default="quick")
    ap.add_argument("--sessions", type=int)
    ap.add_argument("--seeds", default="0")
    args = ap.parse_args()
    sd = os.path.join(HERE, "seeded", args.name)
    os.makedirs(sd, exist_ok=True)
    if args.src:
        for f in ["patch.diff", "meta.json"] + [os.path.basename(x) for x in glob.glob(os.path.join(args.src, "demo*.py"))]:
            if os.path.exists(os.path.join(args.src, f)):
                shutil.copy(os.path.join(args.src, f), os.path.join(sd, f))
    demos = sorted(glob.glob(os.path.join(sd, "demo*.py")))
    res = {"name": args.name, "world": args.world, "at": time.strftime("%Y-%m-%d %H:%M:%S")}
    scratch = tempfile.mkdtemp(prefix="seeded_eval_")
    cdir = os.path.join(HERE, ".cache")
    caches_before = set(os.listdir(cdir)) if os.path.isdir(cdir) else set()
    try:
        rc, out, err = run(["git", "-C", "/repo", "archive", "HEAD", "-o", os.path.join(scratch, "src.tar")], "/")
        run(["tar", "-xf", "src.tar"], scratch)
        os.remove(os.path.join(scratch, "src.tar"))
        run(["git", "init", "-q"], scratch)
        env = {"PYTHONPATH": scratch, "NUMBA_CACHE_DIR": os.path.join(scratch, ".nbcache"), "PYTHONHASHSEED": "0"}
        demo = demos[0] if demos else None
        if demo:
            shutil.copy(demo, os.path.join(scratch, "demo_seeded.py"))
            rc0, o0, e0 = run([PY, "demo_seeded.py"], scratch, env, 900)
            res["demo_unpatched_exit"] = rc0
        rc, out, err = run(["git", "apply", "--whitespace=nowarn", os.path.join(sd, "patch.diff")], scratch)
        res["patch_applies"] = rc == 0
        if rc != 0:
            res["apply_error"] = err[-500:]
        if demo and rc == 0:
            rc1, o1, e1 = run([PY, "demo_seeded.py"], scratch, env, 900)
            res["demo_patched_exit"] = rc1
            res["demo_patched_tail"] = (o1 + e1)[-400:]
        if not args.skip_tests and rc == 0:
            t0 = time.time()
            rct, ot, et = run([PY, "-m", "pytest", "-q", "-p", "no:cacheprovider", "--timeout=900",
                               "--continue-on-collection-errors", "-x", "--ignore=tests/learn", "-n", "6", "tests"],
                              scratch, env, 7200)
            res["tests_exit"] = rct
            res["tests_tail"] = ot.strip().splitlines()[-1] if ot.strip() else et[-200:]
            res["tests_wall_s"] = round(time.time() - t0)
        if rc == 0:
            res["checks"] = []
            for seed in args.seeds.split(","):
                cmd = [os.path.join(HERE, "check"), args.world, "--root", scratch, "--no-evidence", "--tier", args.tier, "--seed", seed]
                if args.sessions:
                    cmd += ["--sessions", str(args.sessions)]
                t0 = time.time()
                rcc, oc, ec = run(cmd, HERE, {"SIMKIT_REPLAY_DIR": os.path.join(scratch, "replays")}, 7200)
                lines = [l for l in oc.splitlines() if l.startswith("VIOLATION") or l.strip().startswith("invariant=")]
                res["checks"].append({"seed": int(seed), "exit": rcc, "wall_s": round(time.time() - t0, 1),
                                      "lines": lines[:8], "summary": oc.strip().splitlines()[-1] if oc.strip() else ec[-300:]})
            res["caught"] = any(c["exit"] == 1 for c in res["checks"])
    finally:
        shutil.rmtree(scratch, ignore_errors=True)
        if os.path.isdir(cdir):
            for d in set(os.listdir(cdir)) - caches_before:
                shutil.rmtree(os.path.join(cdir, d), ignore_errors=True)
    if args.skip_tests:
        try:
            with open(os.path.join(sd, "result.json")) as f:
                old = json.load(f)
            for k_ in ("tests_exit", "tests_tail", "tests_wall_s"):
                if k_ in old:
                    res[k_] = old[k_]
        except Exception:
            pass
    with open(os.path.join(sd, "result.json"), "w") as f:
        json.dump(res, f, indent=1, sort_keys=True)
    print(json.dumps(res, indent=1, sort_keys=True))
    return 0


if __name__ == "__main__":
    sys.exit(main())
