#!/bin/bash
# Offline setup: nothing to download or compile. Creates scratch directories
# and checks that the repo's interpreter can import what the simulator needs.
set -e
cd "$(dirname "$0")"
mkdir -p out replays evidence .cache
/venv/bin/python - <<'PY'
import sys
sys.path.insert(0, "/repo")
import numpy, scipy, numba, tqdm, pywt  # noqa
import sigpy  # noqa
print("setup ok: python", sys.version.split()[0], "numpy", numpy.__version__, "numba", numba.__version__)
PY
