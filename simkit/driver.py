"""Driver: splits a seed range over worker processes (fresh interpreters with
a pinned environment), merges their results, verifies replays in a fresh
interpreter, writes the evidence file and prints VIOLATION / KNOWN-FINDING
lines. Imports nothing from sigpy.

exit codes: 0 property held on everything explored, 1 violation, 2 harness error
"""
import argparse
import hashlib
import json
import os
import subprocess
import sys
import tempfile
import time

HERE = os.path.dirname(os.path.dirname(os.path.abspath(__file__)))
PY = os.environ.get("SIMKIT_PYTHON", "/venv/bin/python")

# world -> (property id, quick sessions, thorough sessions, configs)
# configs: list of (name, env overrides, share of sessions)
WORLDS = {
    "cg": ("C12", 24000, 1600000, [("default", {}, 1.0)]),
    "pg": ("C13", 6000, 360000, [("default", {}, 0.99), ("history", {}, 0.01, {"fresh_per_session": True})]),
    "lls": ("C14", 640, 40000, [("default", {}, 1.0)]),
    "stop": ("C15", 48000, 1200000, [("default", {}, 1.0)]),
    "rng": (
        "C18",
        480,
        43000,
        [("jit", {}, 0.87, {"workers": 9}), ("nojit", {"NUMBA_DISABLE_JIT": "1"}, 0.13, {"workers": 7})],
    ),
    "ops": ("C02", 2400, 200000, [("default", {}, 1.0)]),
}


def tree_sha(root):
    h = hashlib.blake2b(digest_size=8)
    base = os.path.join(root, "sigpy")
    for dp, dn, fn in sorted(os.walk(base)):
        dn.sort()
        for f in sorted(fn):
            if f.endswith(".py"):
                p = os.path.join(dp, f)
                h.update(os.path.relpath(p, base).encode())
                with open(p, "rb") as fh:
                    h.update(fh.read())
    return h.hexdigest()


def worker_env(root, extra, hashseed="0"):
    env = dict(os.environ)
    for k in list(env):
        if k.startswith("NUMBA_") or k in ("COLUMNS", "LINES", "TQDM_DISABLE"):
            del env[k]
        if k.startswith("TQDM_"):
            env.pop(k, None)
    sha = tree_sha(root)
    cache = os.path.join(HERE, ".cache", sha + ("-nojit" if extra.get("NUMBA_DISABLE_JIT") else ""))
    os.makedirs(cache, exist_ok=True)
    env.update(
        {
            "PYTHONHASHSEED": hashseed,
            "OPENBLAS_NUM_THREADS": "1",
            "OMP_NUM_THREADS": "1",
            "MKL_NUM_THREADS": "1",
            "NUMBA_NUM_THREADS": "1",
            "NUMBA_CACHE_DIR": cache,
            "PYTHONDONTWRITEBYTECODE": "1",
            "SIMKIT_ROOT": root,
            "COLUMNS": "80",
            "LINES": "24",
            "PYTHONWARNINGS": "ignore",
        }
    )
    env.update(extra)
    return env


def load_known(prop):
    path = os.path.join(HERE, "known_findings.json")
    if not os.path.exists(path):
        return []
    with open(path) as f:
        data = json.load(f)
    return [e for e in data.get("findings", []) if e["property"] == prop]


def run_workers(world, tier, configs, total, base_seed, nworkers, root, wall_cap,
                digests=False, hashseed="0", no_shrink=False, soft_budget=0):
    """Returns (list of per-worker aggregate dicts, harness error strings).

    Seeds are global: session i of config c uses seed cfg_start + i; each worker
    takes a stride, so results do not depend on the worker count. A config with
    option fresh_per_session runs every session in its own fresh interpreter
    (the process history is then part of the plan)."""
    tmpd = tempfile.mkdtemp(prefix="simkit_", dir=os.path.join(HERE, "out"))
    jobs = []
    cfg_start = base_seed
    for cfg in configs:
        cname, cenv, share = cfg[0], cfg[1], cfg[2]
        opts = cfg[3] if len(cfg) > 3 else {}
        n = max(1, int(round(total * share)))
        if opts.get("fresh_per_session"):
            nw = n
        elif opts.get("workers"):
            nw = max(1, min(n, int(round(opts["workers"] * nworkers / 16.0))))
        else:
            nw = max(1, min(nworkers, int(round(nworkers * share))) if len(configs) > 1 else nworkers)
            nw = min(nw, n)
        env = worker_env(root, cenv, hashseed)
        env["SIMKIT_WALL_CAP"] = str(wall_cap)
        if soft_budget:
            env["SIMKIT_SOFT_BUDGET"] = str(soft_budget)
            env["SIMKIT_T0"] = repr(time.time())
        for w in range(nw):
            out = os.path.join(tmpd, "%s_%s_%d.json" % (world, cname, w))
            cmd = [PY, "-m", "simkit.worker", "run", world, tier, cname,
                   str(cfg_start), str(n), str(nw), str(w), out]
            if digests:
                cmd.append("--digests")
            if no_shrink:
                cmd.append("--no-shrink")
            jobs.append({"cmd": cmd, "env": env, "out": out, "name": "%s/%d" % (cname, w)})
        cfg_start += n
    errors = []
    results = []
    deadline = time.time() + wall_cap + 60
    pending = list(jobs)
    running = []

    def finish(job, rc):
        job["log"].close()
        if rc != 0:
            try:
                tail = open(job["out"] + ".log").read()[-1500:]
            except OSError:
                tail = ""
            errors.append("worker %s exit %s: %s" % (job["name"], rc, tail))
            return
        with open(job["out"]) as f:
            results.append(json.load(f))

    t_begin = time.time()
    skipped = [0]
    while pending or running:
        if soft_budget and pending and time.time() - t_begin > soft_budget:
            skipped[0] += len(pending)
            pending = []
        while pending and len(running) < nworkers:
            job = pending.pop(0)
            job["log"] = open(job["out"] + ".log", "w")
            job["p"] = subprocess.Popen(job["cmd"], cwd=HERE, env=job["env"], stdout=job["log"],
                                        stderr=subprocess.STDOUT)
            running.append(job)
        still = []
        for job in running:
            rc = job["p"].poll()
            if rc is None:
                if time.time() > deadline:
                    job["p"].kill()
                    job["p"].wait()
                    job["log"].close()
                    errors.append("worker %s exceeded the wall cap" % job["name"])
                else:
                    still.append(job)
            else:
                finish(job, rc)
        running = still
        if running:
            time.sleep(0.02)
    for job in jobs:
        for f in (job["out"], job["out"] + ".log"):
            try:
                os.remove(f)
            except OSError:
                pass
    try:
        os.rmdir(tmpd)
    except OSError:
        pass
    results.sort(key=lambda r: (r["config"], r.get("offset", 0)))
    return results, errors


def merge(results):
    m = {
        "evaluations": 0, "nontrivial": 0, "fingerprints": {}, "stats": {},
        "violations": [], "known_hits": {}, "discarded": {}, "samples": [],
        "sim_time": 0.0, "harness_errors": [], "digests": {}, "by_config": {}, "maxima": {},
        "cpu_s": 0.0,
    }
    for r in results:
        m["evaluations"] += r["evaluations"]
        m["nontrivial"] += r["nontrivial"]
        m["sim_time"] += r["sim_time"]
        m["cpu_s"] += r.get("wall_s", 0.0)
        bc = m["by_config"].setdefault(r["config"], {"evaluations": 0})
        bc["evaluations"] += r["evaluations"]
        for k, v in r["fingerprints"].items():
            m["fingerprints"][k] = m["fingerprints"].get(k, 0) + v
        for k, v in r["stats"].items():
            m["stats"][k] = m["stats"].get(k, 0) + v
        for k, v in r.get("maxima", {}).items():
            if v > m["maxima"].get(k, float("-inf")):
                m["maxima"][k] = v
        for k, v in r["discarded"].items():
            m["discarded"][k] = m["discarded"].get(k, 0) + v
        for k, v in r["known_hits"].items():
            e = m["known_hits"].setdefault(k, {"count": 0, "seed": v["seed"], "detail": v.get("detail")})
            e["count"] += v["count"]
            if v["seed"] < e["seed"]:
                e["seed"], e["detail"] = v["seed"], v.get("detail")
        m["violations"] += r["violations"]
        m["harness_errors"] += r["harness_errors"]
        if r.get("digests"):
            m["digests"].update(r["digests"])
        for s in r["samples"]:
            if len(m["samples"]) < 3:
                m["samples"].append(s)
    m["violations"].sort(key=lambda v: v["seed"])
    return m


def replay_file(path, root, config_env=None, known=False, trace=False, unshrunk=False):
    env = worker_env(root, config_env or {})
    cmd = [PY, "-m", "simkit.worker", "replay", path]
    if unshrunk:
        cmd.append("--unshrunk")
    if known:
        cmd.append("--known")
    if trace:
        cmd.append("--trace")
    p = subprocess.run(cmd, cwd=HERE, env=env, capture_output=True, text=True, timeout=900)
    res = None
    for line in p.stdout.splitlines():
        if line.startswith("REPLAY-RESULT "):
            res = json.loads(line[len("REPLAY-RESULT "):])
    return p.returncode, res, p.stdout, p.stderr


def nest_stats(stats):
    out = {}
    for k, v in sorted(stats.items()):
        if "." in k:
            a, b = k.split(".", 1)
            out.setdefault(a, {})[b] = v
        else:
            out[k] = v
    return out


def main(argv=None):
    ap = argparse.ArgumentParser()
    ap.add_argument("world")
    ap.add_argument("--tier", default=os.environ.get("VERIF_TIER", "quick"))
    ap.add_argument("--replay")
    ap.add_argument("--trace", action="store_true")
    ap.add_argument("--workers", type=int, default=int(os.environ.get("SIMKIT_WORKERS", "16")))
    ap.add_argument("--sessions", type=int, default=None)
    ap.add_argument("--root", default=os.environ.get("SIMKIT_ROOT", "/repo"))
    ap.add_argument("--no-evidence", action="store_true")
    ap.add_argument("--no-shrink", action="store_true")
    ap.add_argument("--seed", type=int, default=None)
    args = ap.parse_args(argv)

    os.makedirs(os.path.join(HERE, "out"), exist_ok=True)
    os.makedirs(os.path.join(HERE, "replays"), exist_ok=True)
    os.makedirs(os.path.join(HERE, "evidence"), exist_ok=True)
    prop, nquick, nthorough, configs = WORLDS[args.world]

    if args.replay:
        with open(args.replay) as f:
            rp = json.load(f)
        cenv = dict([(c[0], c[1]) for c in configs]).get(rp.get("config", "default"), {})
        rc, res, out, err = replay_file(os.path.abspath(args.replay), args.root, cenv, trace=args.trace)
        sys.stdout.write(out)
        if rc not in (0, 1):
            sys.stderr.write(err[-3000:])
            return 2
        return rc

    tier = args.tier if args.tier in ("quick", "thorough") else "quick"
    seed = args.seed if args.seed is not None else int(os.environ.get("VERIF_SEED", "0") or 0)
    total = args.sessions or (nquick if tier == "quick" else nthorough)
    base_seed = seed * 10_000_000
    wall_cap = 1500 if tier == "quick" else 6 * 3600
    # thorough tier: a soft wall-clock budget - workers stop taking new sessions once it is
    # spent and the run reports what it covered (VERIF_BUDGET_S overrides, 0 = none)
    soft_budget = 0 if tier == "quick" else float(os.environ.get("VERIF_BUDGET_S", "2700") or 0)
    t0 = time.time()
    results, errors = run_workers(args.world, tier, configs, total, base_seed,
                                  args.workers, args.root, wall_cap, no_shrink=args.no_shrink,
                                  soft_budget=soft_budget)
    m = merge(results)
    truncated = sum(1 for r in results if r.get("truncated"))
    planned = total
    wall = time.time() - t0
    for he in m["harness_errors"]:
        errors.append("seed %s: %s" % (he["seed"], he["tb"]))

    known = load_known(prop)
    open_known = {(e["invariant"], e["site"]): e for e in known if e["status"] == "open"}
    exit_code = 0
    # every listed open finding is re-demonstrated from its committed replay, so its
    # KNOWN-FINDING line does not depend on this run's sample happening to hit it
    for (inv, site), e in sorted(open_known.items()):
        key = "%s|%s" % (inv, site)
        demo = (e.get("demonstration") or "").split(" ")[0]
        if key in m["known_hits"] or not demo or not os.path.exists(os.path.join(HERE, demo)):
            continue
        try:
            with open(os.path.join(HERE, demo)) as f:
                rpk = json.load(f)
            cenvk = dict([(c[0], c[1]) for c in configs]).get(rpk.get("config", "default"), {})
            rck, resk, outk, errk = replay_file(os.path.join(HERE, demo), args.root, cenvk, known=True)
            if ("KNOWN-HIT " + key) in outk:
                m["known_hits"][key] = {"count": 1, "seed": rpk.get("seed", -1), "detail": "from " + demo}
        except Exception as ex:  # noqa
            errors.append("known-finding demonstration %s failed to run: %r" % (demo, ex))
    # known findings (interpreter continued past them)
    for key, e in sorted(m["known_hits"].items()):
        inv, site = key.split("|", 1)
        kf = open_known.get((inv, site))
        what = kf["what"] if kf else key
        print("KNOWN-FINDING: property=%s %s [invariant=%s site=%s hits=%d first_seed=%d]"
              % (prop, what, inv, site, e["count"], e["seed"]))
    # new violations: verify replay in a fresh interpreter
    reported = set()
    nviol = 0
    hist_trials = [0]
    hist_verified = [0]
    # A worker shrinks a violation right after finding it, in the same interpreter: the
    # process history of that worker's later sessions then contains the shrinker's
    # executions, which cannot be re-generated from seeds.  Only each worker's first
    # violation has a history that is a pure function of seeds; those are verified first
    # and are the only ones the process-history fallback below is tried on.
    first_of_worker = {}
    for v in m["violations"]:
        v["_wk"] = None
        if v.get("replay"):
            try:
                with open(v["replay"]) as f:
                    rpj_ = json.load(f)
                wk_ = rpj_.get("worker")
                if wk_:
                    v["_wk"] = (rpj_.get("config", "default"), wk_.get("offset"), wk_.get("start"))
            except Exception:  # noqa
                pass
        if v["_wk"] is not None and (v["_wk"] not in first_of_worker or v["seed"] < first_of_worker[v["_wk"]]):
            first_of_worker[v["_wk"]] = v["seed"]
    for v in m["violations"]:
        v["_first"] = v["_wk"] is not None and first_of_worker.get(v["_wk"]) == v["seed"]
    m["violations"].sort(key=lambda v: (not v["_first"],))
    for v in m["violations"]:
        if v["fp"] in reported:
            continue
        if v["replay"] is None:
            continue
        reported.add(v["fp"])
        cenv = {}
        try:
            with open(v["replay"]) as f:
                rp = json.load(f)
            cenv = dict([(c[0], c[1]) for c in configs]).get(rp.get("config", "default"), {})
            rc, res, out, err = replay_file(v["replay"], args.root, cenv)
        except Exception as ex:  # noqa
            rc, res, out, err = 2, None, "", repr(ex)
        ok = (
            res is not None and res["violation"] is not None
            and res["violation"]["invariant"] == v["violation"]["invariant"]
            and res["violation"]["step"] == v["violation"]["step"]
        )
        if not ok and rp.get("plan_unshrunk") is not None:
            # The minimised plan was found inside a worker that had already run other
            # sessions; if it needs that process history, fall back to the unshrunk
            # session, which starts from a fresh interpreter's state.
            try:
                rc, res, out, err = replay_file(v["replay"], args.root, cenv, unshrunk=True)
            except Exception as ex:  # noqa
                rc, res, out, err = 2, None, "", repr(ex)
            vu = rp.get("violation_unshrunk") or {}
            ok = (res is not None and res["violation"] is not None
                  and res["violation"]["invariant"] == vu.get("invariant"))
            if ok:
                rp["plan"], rp["violation"] = rp["plan_unshrunk"], res["violation"]
                rp["plan_unshrunk"] = None
                rp["note"] = "not minimised: the minimised plan depended on the worker's process history"
                rp["trace_digest"] = res["trace_digest"]
                with open(v["replay"], "w") as f:
                    json.dump(rp, f, sort_keys=True, indent=1)
                v["violation"] = res["violation"]
        hist_tried = False
        if not ok and rp.get("worker") and v.get("_first") and hist_trials[0] < 3:
            hist_trials[0] += 1
            hist_tried = True
            # Neither the minimised nor the original session fails on its own in a fresh
            # interpreter: the violation needs the sessions that ran before it in the
            # same worker (hidden process-global state). Replay that history, then
            # shorten it with a few fresh-interpreter trials.
            wk = rp["worker"]
            seeds = [wk["start"] + i for i in range(wk["offset"], wk["count"], wk["stride"])
                     if wk["start"] + i <= v["seed"]]
            vu = rp.get("violation_unshrunk") or v["violation"]

            def try_history(sds):
                rp2 = dict(rp)
                rp2["history"] = {"seeds": sds, "tier": rp.get("tier", tier), "config": rp.get("config", "default")}
                rp2["plan"] = None
                rp2["plan_unshrunk"] = None
                rp2["violation"] = vu
                with open(v["replay"] + ".hist", "w") as f:
                    json.dump(rp2, f, sort_keys=True)
                try:
                    rc2, res2, out2, err2 = replay_file(v["replay"] + ".hist", args.root, cenv)
                except Exception:
                    return None
                if res2 and res2["violation"] and res2["violation"]["invariant"] == vu.get("invariant"):
                    return res2["violation"]
                return None
            hv = try_history(seeds)
            if hv is not None:
                trials = 0
                keep = seeds
                # greedy halving of the predecessor list (the last seed always stays)
                chunk = max(1, (len(keep) - 1) // 2)
                while chunk >= 1 and trials < 10 and len(keep) > 1:
                    i = 0
                    progressed = False
                    while i < len(keep) - 1 and trials < 10:
                        cand = keep[:i] + keep[i + chunk:] if i + chunk < len(keep) else keep[:i] + keep[-1:]
                        if cand[-1] != keep[-1]:
                            cand = cand + [keep[-1]]
                        trials += 1
                        hv2 = try_history(cand)
                        if hv2 is not None:
                            keep, hv, progressed = cand, hv2, True
                        else:
                            i += chunk
                    if not progressed or chunk == 1:
                        chunk //= 2
                try_history(keep)
                os.replace(v["replay"] + ".hist", v["replay"])
                v["violation"] = hv
                ok = True
                hist_verified[0] += 1
                print("NOTE property=%s the violation below depends on process history: %d session(s) in one interpreter"
                      % (prop, len(keep)))
            else:
                try:
                    os.remove(v["replay"] + ".hist")
                except OSError:
                    pass
        if ok:
            nviol += 1
            exit_code = 1
            print("VIOLATION property=%s replay=%s" % (prop, v["replay"]))
            print("  invariant=%s site=%s step=%s seed=%s" % (
                v["violation"]["invariant"], v["violation"]["site"],
                v["violation"]["step"], v["seed"]))
            print("  detail=%s" % json.dumps(v["violation"]["detail"], sort_keys=True)[:600])
        elif hist_verified[0] and not hist_tried:
            # hidden process-global state has been demonstrated in this run (a verified
            # process-history replay above); this violation was either found in a worker whose
            # interpreter had already executed a shrinker (its history cannot be re-generated
            # from seeds) or comes after the budget of history replays was used up
            print("NOTE property=%s violation %s (seed %s) not re-verified on its own: this run has already shown, with "
                  "a verified replay, that results depend on process history" % (prop, v["fp"], v["seed"]))
        else:
            errors.append("violation %s (seed %s) did not reproduce in a fresh interpreter: %s %s"
                          % (v["fp"], v["seed"], (out or "")[-500:], (err or "")[-500:]))
    unreported = [v for v in m["violations"] if v["fp"] not in reported]
    if unreported and exit_code == 0 and not errors:
        # more than 3 distinct fingerprints per worker: still a violation
        exit_code = 1
        for v in unreported[:3]:
            print("VIOLATION property=%s replay=none-seed-%s" % (prop, v["seed"]))

    evid = {
        "property_id": prop,
        "tier": tier,
        "seed": seed,
        "level": "exploration",
        "coverage": {
            "evaluations": m["evaluations"],
            "sessions_planned": planned,
            "wall_clock_budget_s": soft_budget,
            "workers_stopped_by_budget": truncated,
            "distinct_nontrivial": len(m["fingerprints"]),
            "rule": RULES.get(args.world, ""),
            "samples": m["samples"],
            "nontrivial_sessions": m["nontrivial"],
            "by_config": m["by_config"],
            "sessions_per_hour": int(m["evaluations"] / max(wall, 1e-9) * 3600),
            "simulated_time": m["sim_time"],
            "simulated_time_unit": SIMTIME_UNIT.get(args.world, "logical steps"),
            "stats": nest_stats(m["stats"]),
            "discarded": m["discarded"],
            "worst_observed_over_tolerance": {k: float("%.3g" % v) for k, v in sorted(m["maxima"].items())},
            "known_finding_hits": {k: v["count"] for k, v in m["known_hits"].items()},
            "components": WORLD_COMPONENTS.get(args.world, COMPONENTS),
            "invariants_checked": WORLD_INVARIANTS.get(args.world, []),
            "violating_sessions": len(m["violations"]),
            "workers": args.workers,
            "sigpy_tree_sha": tree_sha(args.root),
        },
        "assumptions": ASSUMPTIONS.get(args.world, []),
        "wall_s": round(wall, 2),
        "violations": nviol,
    }
    if errors:
        exit_code = 2
        for e in errors[:10]:
            sys.stderr.write("HARNESS-ERROR: %s\n" % e)
    if not args.no_evidence and exit_code != 2:
        path = os.path.join(HERE, "evidence", prop + ".json")
        with open(path + ".tmp", "w") as f:
            json.dump(evid, f, indent=1, sort_keys=True)
        os.replace(path + ".tmp", path)
    if truncated:
        print("NOTE wall-clock budget of %ds reached (VERIF_BUDGET_S): %d of %d planned sessions were run"
              % (soft_budget, m["evaluations"], planned))
    print("%s world=%s tier=%s seed=%d sessions=%d distinct=%d violations=%d known=%d wall=%.1fs exit=%d"
          % (prop, args.world, tier, seed, m["evaluations"], len(m["fingerprints"]),
             len(m["violations"]), sum(v["count"] for v in m["known_hits"].values()), wall, exit_code))
    return exit_code


COMPONENTS = {
    "real": ["sigpy (imported from the working tree under test)", "numpy", "scipy", "numba",
             "PyWavelets", "tqdm progress-bar code"],
    "simulated": ["caller program (seeded schedule)", "user callbacks (recording proxies)",
                  "wall clock (sigpy.app.time, tqdm.std.time)", "stderr stream",
                  "numpy global RNG contents/history"],
    "absent": ["MPI/NCCL communicator", "CUDA/cupy", "matplotlib"],
}

RULES = {}
SIMTIME_UNIT = {}
ASSUMPTIONS = {}

WORLD_COMPONENTS = {}
WORLD_INVARIANTS = {}
try:
    from .meta import INVARIANTS as WORLD_INVARIANTS  # noqa
except Exception:  # pragma: no cover
    pass
try:
    from .meta import ASSUMPTIONS, RULES, SIMTIME_UNIT  # noqa
    from .meta import COMPONENTS as WORLD_COMPONENTS  # noqa
except Exception:  # pragma: no cover
    pass

if __name__ == "__main__":
    sys.exit(main())
