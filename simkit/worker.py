"""Worker: executes a strided seed range of one world in this interpreter.

usage: python -m simkit.worker run  <world> <tier> <config> <start> <count> <stride> <offset> <out.json> [--digests]
       python -m simkit.worker replay <file>
The environment (PYTHONHASHSEED, thread caps, NUMBA_*, SIMKIT_ROOT) is set by
the driver before this interpreter starts.
"""
import faulthandler
import json
import os
import sys
import time
import traceback

HERE = os.path.dirname(os.path.dirname(os.path.abspath(__file__)))
ROOT = os.environ.get("SIMKIT_ROOT", "/repo")
sys.path.insert(0, ROOT)
if HERE not in sys.path:
    sys.path.insert(1, HERE)


def load_world(name):
    import importlib

    import sigpy

    if not os.path.abspath(sigpy.__file__).startswith(os.path.abspath(ROOT) + os.sep):
        raise RuntimeError(
            "sigpy imported from %s, expected under %s" % (sigpy.__file__, ROOT)
        )
    mod = importlib.import_module("worlds." + name)
    return mod.WORLD


def load_known(property_id):
    path = os.path.join(HERE, "known_findings.json")
    known = set()
    if os.path.exists(path):
        with open(path) as f:
            data = json.load(f)
        for e in data.get("findings", []):
            if e["property"] == property_id and e["status"] == "open":
                known.add((e["invariant"], e["site"]))
    return known


def tree_sha():
    import hashlib

    h = hashlib.blake2b(digest_size=8)
    base = os.path.join(ROOT, "sigpy")
    for dp, dn, fn in sorted(os.walk(base)):
        dn.sort()
        for f in sorted(fn):
            if f.endswith(".py"):
                p = os.path.join(dp, f)
                h.update(os.path.relpath(p, base).encode())
                with open(p, "rb") as fh:
                    h.update(fh.read())
    return h.hexdigest()


def cmd_run(argv):
    world_name, tier, config = argv[0], argv[1], argv[2]
    start, count, stride, offset = (int(a) for a in argv[3:7])
    out = argv[7]
    want_digests = "--digests" in argv
    no_shrink = "--no-shrink" in argv
    wall_cap = float(os.environ.get("SIMKIT_WALL_CAP", "3600"))
    faulthandler.enable()
    faulthandler.dump_traceback_later(wall_cap, exit=True)

    from simkit import codec
    from simkit.shrink import Shrinker

    t0 = time.time()
    world = load_world(world_name)
    world.known = load_known(world.property_id)
    world.warmup(config)
    t_warm = time.time() - t0

    agg = {
        "world": world_name,
        "tier": tier,
        "config": config,
        "offset": offset,
        "evaluations": 0,
        "nontrivial": 0,
        "fingerprints": {},
        "stats": {},
        "violations": [],
        "known_hits": {},
        "discarded": {},
        "samples": [],
        "sim_time": 0.0,
        "maxima": {},
        "harness_errors": [],
        "digests": {} if want_digests else None,
        "warmup_s": t_warm,
    }
    shrunk_fps = set()
    replay_dir = os.environ.get("SIMKIT_REPLAY_DIR", os.path.join(HERE, "replays"))
    os.makedirs(replay_dir, exist_ok=True)
    sha = tree_sha()

    # soft wall-clock budget (thorough tier): stop taking new sessions, report what was covered
    soft = float(os.environ.get("SIMKIT_SOFT_BUDGET", "0") or 0)
    t_start = float(os.environ.get("SIMKIT_T0", "0") or 0) or t0
    agg["planned"] = len(range(offset, count, stride))
    agg["truncated"] = False
    for i in range(offset, count, stride):
        if soft and time.time() - t_start > soft:
            agg["truncated"] = True
            break
        seed = start + i
        try:
            plan = world.gen_plan(seed, tier, config)
            res = world.execute(plan)
        except Exception:
            agg["harness_errors"].append(
                {"seed": seed, "tb": traceback.format_exc()[-2000:]}
            )
            if len(agg["harness_errors"]) > 5:
                break
            continue
        agg["evaluations"] += 1
        agg["sim_time"] += res.sim_time
        for k, v in res.stats.items():
            agg["stats"][k] = agg["stats"].get(k, 0) + v
        for k, v in res.maxima.items():
            if v > agg["maxima"].get(k, float("-inf")):
                agg["maxima"][k] = v
        for kh in getattr(res, "known_hits", []):
            key = "%s|%s" % (kh["invariant"], kh["site"])
            e = agg["known_hits"].setdefault(key, {"count": 0, "seed": seed, "detail": kh.get("detail")})
            e["count"] += 1
        if res.discarded is not None:
            agg["discarded"][res.discarded] = agg["discarded"].get(res.discarded, 0) + 1
        if res.nontrivial:
            agg["nontrivial"] += 1
            fp = res.fingerprint
            agg["fingerprints"][fp] = agg["fingerprints"].get(fp, 0) + 1
        if want_digests:
            agg["digests"][str(seed)] = res.trace_digest
        if len(agg["samples"]) < 3 and res.nontrivial:
            has_fault = bool(plan.get("faults"))
            if len(agg["samples"]) < 2 or has_fault:
                agg["samples"].append(world.sample_view(plan))
        if res.violation is not None:
            v = res.violation
            fpv = "%s|%s" % (v["invariant"], v["site"])
            rec = {"seed": seed, "violation": v, "fp": fpv, "replay": None}
            if fpv not in shrunk_fps and len(shrunk_fps) < 3:
                shrunk_fps.add(fpv)
                fresh_only = bool(plan.get("history"))  # process history is part of the plan
                if no_shrink or fresh_only:
                    best, bv, execs = plan, v, 0
                else:
                    best, bv, execs = Shrinker(world, plan, v).run()
                r2 = res if fresh_only else world.execute(best)
                replay = {
                    "property": world.property_id,
                    "world": world_name,
                    "config": config,
                    "tier": tier,
                    "seed": seed,
                    "plan": best,
                    "plan_unshrunk": plan if best is not plan else None,
                    "worker": {"start": start, "count": count, "stride": stride, "offset": offset},
                    "violation_unshrunk": v,
                    "violation": bv,
                    "trace_digest": r2.trace_digest,
                    "sigpy_tree_sha": sha,
                    "shrink_execs": execs,
                    "original_steps": len(plan.get("schedule", [])),
                }
                path = os.path.join(
                    replay_dir, "%s_%s_%d.json" % (world.property_id, world_name, seed)
                )
                with open(path, "w") as f:
                    json.dump(replay, f, sort_keys=True, indent=1)
                rec["replay"] = path
                rec["violation"] = bv
            agg["violations"].append(rec)
            if len(agg["violations"]) > 200:
                break
    agg["wall_s"] = time.time() - t0
    with open(out, "w") as f:
        json.dump(agg, f, sort_keys=True)
    faulthandler.cancel_dump_traceback_later()
    return 0


def cmd_replay(argv):
    path = argv[0]
    faulthandler.enable()
    faulthandler.dump_traceback_later(600, exit=True)
    with open(path) as f:
        replay = json.load(f)
    world = load_world(replay["world"])
    world.known = set()
    if "--known" in argv:
        world.known = load_known(world.property_id)
    world.warmup(replay.get("config", "default"))
    if replay.get("history"):
        # process-history replay: re-generate and execute, in order, the sessions the
        # worker had run in the same interpreter before the violating one
        h = replay["history"]
        res = None
        for sd in h["seeds"]:
            plan = world.gen_plan(sd, h["tier"], h["config"])
            try:
                res = world.execute(plan)
            except Exception:
                res = None
        replay["plan"] = plan
        v = res.violation if res is not None else None
        out = {"violation": v, "trace_digest": res.trace_digest if res else None,
               "expected": replay.get("violation"), "history_sessions": len(h["seeds"])}
        print("REPLAY-RESULT " + json.dumps(out, sort_keys=True))
        if v is None:
            print("replay: no violation")
            return 0
        print("VIOLATION property=%s replay=%s (process-history replay: %d sessions in one interpreter)"
              % (replay["property"], path, len(h["seeds"])))
        print("  invariant=%s site=%s step=%s" % (v["invariant"], v["site"], v["step"]))
        print("  detail=%s" % (v["detail"],))
        return 1
    if "--unshrunk" in argv and replay.get("plan_unshrunk") is not None:
        replay["plan"] = replay["plan_unshrunk"]
        replay["violation"] = replay.get("violation_unshrunk")
    res = world.execute(replay["plan"])
    out = {
        "violation": res.violation,
        "trace_digest": res.trace_digest,
        "expected": replay.get("violation"),
        "expected_digest": replay.get("trace_digest"),
    }
    print("REPLAY-RESULT " + json.dumps(out, sort_keys=True))
    for kh in getattr(res, "known_hits", []):
        print("KNOWN-HIT %s|%s" % (kh["invariant"], kh["site"]))
    if "--trace" in argv:
        for rec in res.trace:
            print(json.dumps(rec, sort_keys=True))
    v, e = res.violation, replay.get("violation")
    if v is None:
        print("replay: no violation")
        return 0
    same = e is not None and v["invariant"] == e["invariant"] and v["step"] == e["step"]
    print(
        "VIOLATION property=%s replay=%s%s"
        % (replay["property"], path, "" if same else " (differs from recorded)")
    )
    print("  invariant=%s site=%s step=%s" % (v["invariant"], v["site"], v["step"]))
    print("  detail=%s" % (v["detail"],))
    return 1


def main():
    cmd = sys.argv[1]
    if cmd == "run":
        return cmd_run(sys.argv[2:])
    if cmd == "replay":
        return cmd_replay(sys.argv[2:])
    raise SystemExit("unknown command " + cmd)


if __name__ == "__main__":
    sys.exit(main())
