"""Seams the simulator owns: wall clock, progress stream, tqdm monitor thread.

None of these need a hook in /repo: sigpy.app reads `time.time()` through its
module attribute `time`, tqdm reads `tqdm.std.time`, and the progress bar
writes to whatever `sys.stderr` is when the bar is created.
"""
import errno
import sys
import threading
import types


class SimClock:
    """Discrete simulated clock: every read advances by a plan-drawn amount;
    planned jumps (forward or backward) fire at given read indices."""

    def __init__(self, spec=None):
        spec = spec or {}
        self.now = float(spec.get("start", 1.7e9))
        self.start = self.now
        self.incs = list(spec.get("incs", [0.001]))
        self.jumps = {int(k): float(v) for k, v in spec.get("jumps", {}).items()}
        self.reads = 0
        self.jumps_fired = 0
        self.elapsed = 0.0

    def time(self):
        i = self.reads
        self.reads += 1
        inc = self.incs[i % len(self.incs)]
        self.now += inc
        self.elapsed += inc
        if i in self.jumps:
            self.now += self.jumps[i]
            self.jumps_fired += 1
        return self.now


class SimEIO(OSError):
    injected = True


class SimClosed(ValueError):
    injected = True


class SimEPIPE(BrokenPipeError):
    injected = True


class InjectedCallbackFault(RuntimeError):
    """A user callback fails once (transient fault inside an update)."""
    injected = True


class SimStream:
    """Simulated stderr. Fault plan: list of {at_write, kind} with kind in
    eio | closed | epipe | short. Faults are sticky from at_write on for
    eio/closed/epipe (a dead terminal stays dead), one-shot for short."""

    def __init__(self, faults=()):
        self.faults = sorted(faults, key=lambda f: f["at_write"])
        self.writes = 0
        self.bytes = 0
        self.fired = {}
        self.dead = None
        self.healed = False
        self.encoding = "utf-8"

    def heal(self):
        self.healed = True
        self.dead = None

    def _raise_once(self, kind):
        self.fired[kind] = self.fired.get(kind, 0) + 1
        if kind == "epipe_once":
            raise SimEPIPE(errno.EPIPE, "simulated broken pipe (transient)")
        raise SimEIO(errno.EIO, "simulated I/O error (transient)")

    def _raise(self, kind):
        self.fired[kind] = self.fired.get(kind, 0) + 1
        if kind == "eio":
            raise SimEIO(errno.EIO, "simulated I/O error")
        if kind == "closed":
            raise SimClosed("I/O operation on closed file.")
        if kind == "epipe":
            raise SimEPIPE(errno.EPIPE, "simulated broken pipe")
        raise AssertionError(kind)

    def write(self, s):
        i = self.writes
        self.writes += 1
        if not self.healed:
            if self.dead is not None:
                self._raise(self.dead)
            for f in self.faults:
                if f["at_write"] == i:
                    if f["kind"] == "short":
                        self.fired["short"] = self.fired.get("short", 0) + 1
                        n = len(s) // 2
                        self.bytes += n
                        return n
                    if f["kind"].endswith("_once"):
                        # transient fault: this write fails, the stream works again afterwards
                        self._raise_once(f["kind"])
                    self.dead = f["kind"]
                    self._raise(f["kind"])
        self.bytes += len(s)
        return len(s)

    def flush(self):
        if not self.healed and self.dead is not None:
            self._raise(self.dead)

    def isatty(self):
        return False

    def fileno(self):
        raise OSError("simulated stream has no fileno")


class Seams:
    """Context manager installing clock + stream for the duration of a run."""

    def __init__(self, clock=None, stream=None):
        self.clock = clock
        self.stream = stream
        self._saved = []

    def __enter__(self):
        import tqdm.std

        import sigpy.app

        tqdm.std.tqdm.monitor_interval = 0
        if self.clock is not None:
            self._saved.append((sigpy.app, "time", sigpy.app.time))
            fake_time = types.SimpleNamespace(time=self.clock.time)
            sigpy.app.time = fake_time
            self._saved.append((tqdm.std, "time", tqdm.std.time))
            tqdm.std.time = self.clock.time
        if self.stream is not None:
            self._saved.append((sys, "stderr", sys.stderr))
            sys.stderr = self.stream
        return self

    def __exit__(self, *exc):
        if self.stream is not None:
            self.stream.heal()
        for mod, name, val in reversed(self._saved):
            setattr(mod, name, val)
        self._saved = []
        return False


def assert_single_thread():
    names = [t.name for t in threading.enumerate()]
    if len(names) != 1:
        raise RuntimeError("unexpected threads inside simulation: %r" % names)
