"""World interface: plan generation (pure, seeded) + execution (pure function
of the plan and the code under /repo) + shrink candidates."""
import random
from collections import Counter

from . import codec


class Violation(Exception):
    """Raised by an interpreter when an invariant fails."""

    def __init__(self, invariant, site, step, detail):
        super().__init__("%s @%s step %s: %s" % (invariant, site, step, detail))
        self.invariant = invariant
        self.site = site
        self.step = step
        self.detail = detail

    def as_dict(self):
        return {
            "invariant": self.invariant,
            "site": self.site,
            "step": self.step,
            "detail": codec.jsonable(self.detail),
        }


class Discard(Exception):
    """The instance cannot be judged (reference certificate failed...)."""

    def __init__(self, why):
        super().__init__(why)
        self.why = why


class Result:
    def __init__(self):
        self.violation = None  # dict or None
        self.discarded = None  # reason or None
        self.trace = []  # list of JSON-able step records
        self.stats = Counter()  # steps, faults_fired.*, buggify.*, probes.*
        self.fingerprint = None  # session kind fingerprint (str)
        self.nontrivial = False
        self.sim_time = 0.0
        self.maxima = {}  # worst observed ratio observed/tolerance per oracle
        self.known_hits = []

    def note_max(self, key, val):
        val = float(val)
        if val == val and val > self.maxima.get(key, float("-inf")):
            self.maxima[key] = val

    @property
    def trace_digest(self):
        return codec.json_digest(self.trace)


def mk_rng(world, seed):
    # str seeds go through sha512 in CPython: independent of PYTHONHASHSEED.
    return random.Random("%s:%d" % (world, seed))


class World:
    name = None
    property_id = None
    # (quick, thorough) number of sessions
    budget = {"quick": 100, "thorough": 1000}
    # environment configurations: list of (config_name, env overrides, share)
    configs = [("default", {}, 1.0)]

    def gen_plan(self, seed, tier, config="default"):
        raise NotImplementedError

    def execute(self, plan):
        """Return Result; never raises for a property violation."""
        raise NotImplementedError

    def shrink_candidates(self, plan, violation):
        """Yield simpler plans (world specific)."""
        return iter(())

    def sample_view(self, plan):
        """Abbreviated plan for the evidence file."""
        return plan

    def warmup(self, config="default"):
        pass


def run_guarded(world, plan):
    """execute() with Violation/Discard exceptions folded into the Result."""
    return world.execute(plan)
