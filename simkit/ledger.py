"""Buffer ledger: every caller-owned array is registered with an exact content
digest and re-verified after every library call."""
import numpy as np

from .codec import bytes_digest


class Ledger:
    def __init__(self):
        self.entries = {}  # name -> [array, digest, meta]

    @staticmethod
    def _meta(a):
        return (a.dtype.str, a.shape, a.strides)

    def own(self, name, array):
        assert isinstance(array, np.ndarray), name
        self.entries[name] = [array, bytes_digest(array), self._meta(array)]

    def disown(self, name):
        self.entries.pop(name, None)

    def refresh(self, name):
        e = self.entries[name]
        e[1] = bytes_digest(e[0])
        e[2] = self._meta(e[0])

    def verify(self, outputs=()):
        """Return names of owned arrays whose bytes/metadata changed.

        `outputs`: arrays documented as written by the step that just ran;
        entries overlapping one of them are re-snapshotted instead of judged.
        """
        changed = []
        for name, e in self.entries.items():
            a = e[0]
            if any(
                isinstance(o, np.ndarray) and np.shares_memory(a, o)
                for o in outputs
            ):
                e[1] = bytes_digest(a)
                e[2] = self._meta(a)
                continue
            if self._meta(a) != e[2] or bytes_digest(a) != e[1]:
                changed.append(name)
        return changed

    def __len__(self):
        return len(self.entries)
