"""Explicit-number (de)serialisation of arrays and digests.

Plans are JSON: every array is written out number by number (Python's float
repr round-trips float64 exactly; float32/complex64 are widened exactly), so a
replay needs no PRNG at all.
"""
import hashlib
import json

import numpy as np


def enc(a):
    """ndarray / numpy scalar -> JSON-able dict."""
    if a is None:
        return None
    a = np.asarray(a)
    d = {"dtype": a.dtype.name, "shape": list(a.shape)}
    flat = np.ascontiguousarray(a).ravel()
    if np.iscomplexobj(a):
        d["re"] = [float(v) for v in flat.real]
        d["im"] = [float(v) for v in flat.imag]
    elif a.dtype == np.bool_:
        d["re"] = [int(v) for v in flat]
    elif np.issubdtype(a.dtype, np.integer):
        d["re"] = [int(v) for v in flat]
    else:
        d["re"] = [float(v) for v in flat]
    return d


def dec(d, order="C"):
    """JSON-able dict -> freshly allocated ndarray."""
    if d is None:
        return None
    dt = np.dtype(d["dtype"])
    if "im" in d:
        a = np.array(d["re"], dtype=np.float64) + 1j * np.array(
            d["im"], dtype=np.float64
        )
    else:
        a = np.array(d["re"])
    a = a.astype(dt).reshape(d["shape"])
    if order == "F":
        return np.asfortranarray(a)
    return np.ascontiguousarray(a)


def is_enc(d):
    return isinstance(d, dict) and "dtype" in d and "shape" in d and "re" in d


def map_arrays(obj, f):
    """Apply f to every encoded array inside a JSON-like structure."""
    if is_enc(obj):
        return f(obj)
    if isinstance(obj, dict):
        return {k: map_arrays(v, f) for k, v in obj.items()}
    if isinstance(obj, list):
        return [map_arrays(v, f) for v in obj]
    return obj


def bytes_digest(a):
    """Exact digest of dtype, shape, and the logical contents of an array."""
    a = np.asarray(a)
    h = hashlib.blake2b(digest_size=12)
    h.update(a.dtype.str.encode())
    h.update(repr(a.shape).encode())
    h.update(np.ascontiguousarray(a).tobytes())
    return h.hexdigest()


def qdigest(a, digits=9):
    """Digest of an array rounded to `digits` significant digits relative to
    its own scale (robust against last-bit rounding differences)."""
    a = np.asarray(a)
    if a.size == 0:
        return "empty"
    if a.dtype.kind in "biu":
        return bytes_digest(a)
    af = np.ascontiguousarray(a).astype(
        np.complex128 if np.iscomplexobj(a) else np.float64
    )
    if not np.all(np.isfinite(af.view(np.float64))):
        return "nonfinite:" + bytes_digest(np.isfinite(af.view(np.float64)))
    scale = float(np.max(np.abs(af)))
    if scale == 0:
        return "zero:" + repr(a.shape)
    e = np.floor(np.log10(scale))
    q = np.round(af.view(np.float64) / 10.0 ** (e - digits + 1))
    q = q.astype(np.int64)
    h = hashlib.blake2b(digest_size=10)
    h.update(repr(a.shape).encode())
    h.update(repr(int(e)).encode())
    h.update(q.tobytes())
    return h.hexdigest()


def fnum(x, digits=9):
    """Stable text for a float observable in the trace."""
    x = float(x)
    if x != x:
        return "nan"
    if x in (float("inf"), float("-inf")):
        return repr(x)
    return ("%." + str(digits - 1) + "e") % x


def json_digest(obj):
    s = json.dumps(obj, sort_keys=True, separators=(",", ":"))
    return hashlib.blake2b(s.encode(), digest_size=12).hexdigest()


def dumps(obj):
    return json.dumps(obj, sort_keys=True)


def jsonable(o):
    """Best-effort conversion of numpy scalars/arrays/complex to JSON types."""
    if isinstance(o, dict):
        return {str(k): jsonable(v) for k, v in o.items()}
    if isinstance(o, (list, tuple)):
        return [jsonable(v) for v in o]
    if isinstance(o, (bool, np.bool_)):
        return bool(o)
    if isinstance(o, (int, np.integer)):
        return int(o)
    if isinstance(o, (float, np.floating)):
        return float(o)
    if isinstance(o, (complex, np.complexfloating)):
        return [float(o.real), float(o.imag)]
    if isinstance(o, np.ndarray):
        if o.size <= 16:
            return jsonable(o.tolist())
        return {"array": list(o.shape), "dtype": o.dtype.name, "absmax": float(np.max(np.abs(o))) if o.size else 0.0}
    if o is None or isinstance(o, str):
        return o
    return repr(o)
