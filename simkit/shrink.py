"""Plan minimiser: delta debugging over faults and schedule, then
world-specific simplifiers, accepting a candidate iff re-execution fails with
the same invariant id."""
import copy


class Shrinker:
    def __init__(self, world, plan, violation, budget=300):
        self.world = world
        self.best = copy.deepcopy(plan)
        self.violation = violation
        self.target = violation["invariant"]
        self.budget = budget
        self.execs = 0

    def _fails(self, plan):
        if self.execs >= self.budget:
            return None
        self.execs += 1
        try:
            res = self.world.execute(plan)
        except Exception:
            return None  # invalid candidate
        v = res.violation
        if v is not None and v["invariant"] == self.target:
            return v
        return None

    def _try(self, cand):
        v = self._fails(cand)
        if v is not None:
            self.best = cand
            self.violation = v
            return True
        return False

    def _ddmin_list(self, key):
        items = self.best.get(key)
        if not isinstance(items, list) or len(items) == 0:
            return
        n = 2
        while len(self.best[key]) >= 1 and self.execs < self.budget:
            items = self.best[key]
            chunk = max(1, len(items) // n)
            reduced = False
            i = 0
            while i < len(items):
                cand = copy.deepcopy(self.best)
                cand[key] = items[:i] + items[i + chunk:]
                if self._try(cand):
                    reduced = True
                    items = self.best[key]
                    # keep i (next chunk slid into place)
                else:
                    i += chunk
                if self.execs >= self.budget:
                    break
            if not reduced:
                if chunk == 1:
                    break
                n = min(len(items), n * 2)
            else:
                n = max(n - 1, 2)

    def run(self):
        # 1. faults
        self._ddmin_list("faults")
        # 2. truncate schedule after the violating step
        step = self.violation.get("step")
        sched = self.best.get("schedule")
        if isinstance(sched, list) and isinstance(step, int) and step + 1 < len(sched):
            cand = copy.deepcopy(self.best)
            cand["schedule"] = sched[: step + 1]
            self._try(cand)
        # 3. ddmin over schedule
        self._ddmin_list("schedule")
        # 4. world-specific simplifiers to fixpoint
        progress = True
        rounds = 0
        while progress and self.execs < self.budget and rounds < 8:
            progress = False
            rounds += 1
            for cand in self.world.shrink_candidates(self.best, self.violation):
                if self.execs >= self.budget:
                    break
                if self._try(cand):
                    progress = True
                    break
        # final schedule pass (simplifiers may have made steps redundant)
        if self.execs < self.budget:
            self._ddmin_list("schedule")
        return self.best, self.violation, self.execs
