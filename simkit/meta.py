"""Per-world evidence texts."""
RULES = {
    "cg": "one session = one seeded plan (HPD system, preconditioner, callback forms, buggify return styles, "
          "caller schedule of update/done/peek actions, optional curvature fault at the k-th A call) executed "
          "against the real ConjugateGradient; non-trivial = at least one update judged against the dense Krylov "
          "reference or a breakdown judged; distinct = distinct fingerprints of (fault class, precision, field, n, "
          "spectrum family, A/P forms, shapes, b/x0 kinds, return styles, max_iter, tol>0, fault kinds, "
          "run-length-compressed action sequence)",
}
RULES["pg"] = ("one session = one seeded plan (composite problem 1/2||Mx-y||^2+g(x), g in none/l1/l2/box, real or complex, "
               "benign or worst-case conditioning, callbacks as closures or sigpy Prox/Linop objects with buggify return styles, "
               "GradientMethod (step c/L, accelerate on/off) or PrimalDualHybridGradient (scalar or Pock-Chambolle array steps, "
               "gamma none/primal/dual/both, start random/zero/exact saddle), caller schedule of update/done/peek) executed against "
               "the real solver with every update judged; non-trivial = at least one update judged against the KKT-certified "
               "reference; distinct = distinct fingerprints of (solver, field, g, family, callback form, return style, n, m, start, "
               "step factor, accelerate, step kind, gamma, long run, K, log10 lam, sigma bucket, compressed action sequence)")
RULES["stop"] = ("one session = one seeded plan (an Alg subclass or App on a small generated instance: PowerMethod, MaxEig, "
                 "GradientMethod, ConjugateGradient, PrimalDualHybridGradient, AltMin, AugmentedLagrangianMethod, ADMM, SDMM, "
                 "NewtonsMethod, GerchbergSaxton, LinearLeastSquares x 4 solvers, L2ConstrainedMinimization, and tiny MRI apps; max_iter 0..12, tol=0; a caller schedule over update/done/peek/read-resid, the canonical loop or "
                 "App.run(); simulated clock with planned jumps and a simulated stderr with planned write faults) executed next to a "
                 "twin canonical run; non-trivial = at least one library call followed by an oracle evaluation; distinct = distinct "
                 "fingerprints of (kind, solver/app, field, n, m, max_iter, g, start, options, progress bar, schedule style, fault "
                 "kinds, compressed action sequence)")
RULES["rng"] = ("one session = one seeded history of process-global numpy RNG users (seed, random, standard_normal leaving a cached "
                "gaussian, shuffle, set_state at boundary positions, sigpy.util.randn, a MaxEig run) interleaved with poisson() calls "
                "drawn from a small pool of argument sets (shapes 16..64, accel, calib even/odd/large, tol incl. unreachable, "
                "crop_corner, dtype, max_attempts, seed int/None), including repeats of earlier argument sets; run in JIT mode and in "
                "interpreter mode (NUMBA_DISABLE_JIT=1); non-trivial = at least one successful poisson call judged; distinct = distinct "
                "fingerprints of (config, compressed action sequence, argument-set classes)")
RULES["ops"] = ("one session = one seeded plan of 8-40 caller actions over a shared pool: build an operator (every CPU Linop class, "
                "MRI factories Sense/ConvSense/ConvImage/PtxSpatialExplicit, expression trees up to depth 3, or a combination of pool "
                "operators so cached .H/.N children are shared), take .H / .N of a pool operator, apply (fresh input in C/Fortran/"
                "strided/negative-stride layout, the same object again, an equal copy, an earlier output, a captured parameter), "
                "C-linearity probe with a complex scalar and real or complex inputs, prox call (all Prox classes and nestings), array "
                "function call (36 public functions), each followed by a ledger check over every caller-owned array; non-trivial = at "
                "least one library call judged; distinct = distinct fingerprints of (classes touched, compressed action sequence, "
                "operator signatures)")
RULES["lls"] = ("one session = one seeded plan of a LinearLeastSquares run: solver (None/CG/GM/PDHG/ADMM) x lamda x z x proxg "
                "(none/l1/l2/box) x G (none/dense/finite difference) x operator A (dense MatMul, Identity, Reshape, Transpose, Multiply, "
                "FFT*Multiply, Resize, ArrayToBlocks tiling and overlapping) x P/alpha/tau/sigma/rho given or defaulted x initial x x "
                "accelerate, real or complex data, deliberately unsupported combinations; executed under a seeded global-RNG history, a "
                "simulated clock and a simulated stderr with planned write faults, optionally followed by a twin run (other RNG history / "
                "fault-free); non-trivial = a run that was judged against the certified optimum, rejected as unsupported, or aborted by a "
                "propagating fault; distinct = distinct fingerprints of (solver, effective solver, A kind, g, G, lamda>0, z, x, P, steps, "
                "accelerate, rho, field, progress bar, twin, n, fault kinds)")
SIMTIME_UNIT = {
    "lls": "simulated seconds of the App.run clock",
    "ops": "caller actions (no clock in this world; logical steps)",
    "rng": "history actions (no clock in this world; logical steps)",
    "stop": "simulated seconds of the App.run clock (sum of planned clock increments over all reads)",
    "pg": "solver updates (no clock in this world; logical steps)",
    "cg": "solver updates (this world has no clock; logical steps are reported)",
}
ASSUMPTIONS = {
    "lls": [
        "objective evaluated by the harness from dense matrices built from the operators' definitions, never by calling sigpy",
        "reference optimum is KKT-certified (direct, change of variables for invertible G, dual box QP for finite-difference TV); uncertified instances are discarded and counted",
        "threshold: F(x) - F* <= 1e-6 (F(0) - F* + 1) with fixed budgets (CG n+5, GM 4000, PDHG 5000, ADMM 1500 x 30 CG); worst observed 6e-3 of the threshold",
        "operators are generated with full column rank and cond <= 30 so the budgets are meaningful; a run whose budget ran out while its gap was still contracting (>= 30 % over the last fifth of the budget) is counted as a probe, not judged",
        "the ledger is verified after each of the first 50 updates and then every 97th",
    ],
    "ops": [
        "a call that raises on a shape-valid input is recorded (probes.rejected), not judged: it returns no wrong data",
        "linearity tolerance 1e-10 when every array is complex double, 1e-4 when any stage is single precision or an input is real (fft casts real input to complex64)",
        "linearity defects are measured against the largest intermediate result of the tree (terms of sums), so exact cancellation A - B = 0 is not an alarm",
        "documented output arguments (axpy/xpay y, copyto output) are exempt from the ledger for that call",
        "operator parameters and inputs are realised from seeds stored in the plan (numpy PCG64), not written out number by number",
        "stacking axes are generated non-negative (negative axes only raise here; their correctness belongs to C03)",
    ],
    "rng": [
        "state comparison is exact over numpy's full get_state() tuple",
        "on the error path (ValueError) the state comparison is a probe only: the statement speaks of generating a mask",
        "crop check uses the function's own calibration-adjusted radius; the stricter geometric ellipse is a probe",
        "termination is decided by a deterministic call budget on the inner sampler (2500 calls), not by wall-clock",
        "cross-interpreter reproducibility is covered by tools/selftest_determinism.py (mask digests are part of the trace)",
    ],
    "stop": [
        "an early stop is judged by continuing the same object for the remaining max_iter - iter updates; the solution must stay within 1e-12*scale",
        "the early-stop clause is applied to algorithms that have a tol parameter (the property conditions it on tol=0); SDMM and fixed-budget algorithms are checked for S1-S4 only",
        "power iteration: first estimate exempt (start vector not normalised); start vectors in the null space are discarded",
        "exceptions that are the injected stream fault itself (also when raised by tqdm on a dead stderr) are propagating faults: relaxed, probe-only oracle",
        "SDMM is driven with square constraint matrices only (the only shape its update supports)",
    ],
    "pg": [
        "reference minimiser is KKT-certified (prox-gradient residual <= 1e-11 relative); uncertified instances are discarded and counted",
        "rate bounds use L' = 1/alpha >= L, the Lipschitz constant the chosen step certifies",
        "Fejer monotonicity is checked in the M-norm pairing x before with u after the half-step (proximal-point form); constant steps only",
        "bounded convergence (2000 updates, within 1e-1 of the initial distance; worst observed 6e-4) only on the benign family (cond <= 5, m >= n)",
        "step-size arrays are exempt from the ledger when acceleration rescales them in place",
        "family 'spread' (cond <= 5 core, columns scaled over e^+-1.5, Pock-Chambolle array steps, g = l2, primal acceleration): after 2000 updates within 2e-3 of the initial distance (worst observed on the unchanged tree 5e-6; an over-accelerating step rule stalls at ~1e-2)",
    ],
    "cg": [
        "dense float64 reference (Arnoldi + Galerkin solve) is exact to ~cond*eps",
        "tolerance for Krylov optimality is tied to a textbook PCG run on the same instance in the same precision",
        "updates issued after iter >= max_iter are not judged (Alg objects are documented as run-once)",
        "sampling, not enumeration: a clean batch is evidence, not proof",
    ],
}


_REAL = ["sigpy (imported from the working tree under test)", "numpy", "scipy", "numba kernels", "PyWavelets"]
COMPONENTS = {
    "cg": {"real": _REAL + ["sigpy.alg.ConjugateGradient", "sigpy.linop.MatMul/Multiply/Identity as A and P"],
           "simulated": ["caller program (seeded schedule of update/done/peek)", "A and P callbacks (recording proxies, buggify return styles, curvature faults)"],
           "stub": [], "absent": ["clock", "stream", "RNG (not read on this path)", "MPI/CUDA"]},
    "pg": {"real": _REAL + ["sigpy.alg.GradientMethod", "sigpy.alg.PrimalDualHybridGradient", "sigpy.prox objects", "sigpy.linop.MatMul"],
           "simulated": ["caller program", "gradient / prox / operator callbacks (recording proxies, buggify return styles)",
                         "process history (history configuration: fresh interpreter per session, no canonical JIT warm-up)"],
           "stub": [], "absent": ["clock", "stream", "MPI/CUDA"]},
    "stop": {"real": _REAL + ["every sigpy.alg.Alg subclass", "sigpy.app.App/MaxEig/LinearLeastSquares/L2ConstrainedMinimization", "sigpy.mri.app recon apps", "tqdm progress-bar code"],
             "simulated": ["caller program (interleavings of update/done/peek, canonical loop, run())", "wall clock (sigpy.app.time, tqdm.std.time)", "stderr stream with write faults", "numpy global RNG (seeded per session)"],
             "stub": ["closures handed to AltMin / AugmentedLagrangianMethod / ADMM / NewtonsMethod are harness code"],
             "absent": ["tqdm monitor thread (disabled: monitor_interval = 0)", "MPI/CUDA"]},
    "rng": {"real": _REAL + ["sigpy.mri.samp.poisson and its sampler (JIT-compiled and interpreted)", "sigpy.util.randn", "sigpy.app.MaxEig"],
            "simulated": ["history of numpy global-RNG users", "numpy global RNG state", "numba's private generator (seeded per session)", "call budget on the inner sampler"],
            "stub": [], "absent": ["clock", "stream", "MPI/CUDA"]},
    "ops": {"real": _REAL + ["all CPU classes of sigpy.linop", "sigpy.mri.linop factories", "sigpy.mri.rf.linop.PtxSpatialExplicit", "sigpy.prox", "public array functions of sigpy and sigpy.mri.util"],
            "simulated": ["caller program (build / take .H,.N / apply / re-apply / probe / prox / function actions)", "buffer pool with layouts and aliasing kinds",
                          "allocator state (recycled blocks of the sizes about to be requested are made non-zero before every call)"],
            "stub": [], "absent": ["clock", "stream", "callbacks", "MPI/CUDA (ToDevice, AllReduce not built)"]},
    "lls": {"real": _REAL + ["sigpy.app.LinearLeastSquares with all four solvers", "sigpy.app.MaxEig (default step sizes)", "tqdm progress-bar code"],
            "simulated": ["caller program", "numpy global RNG history", "wall clock", "stderr stream with write faults"],
            "stub": [], "absent": ["tqdm monitor thread (disabled)", "MPI/CUDA"]},
}


INVARIANTS = {
    "cg": ["krylov_optimality", "anorm_error_increased", "finite_termination", "tracked_residual", "resid_not_rz",
           "solution_not_in_callers_array", "x_written_by_constructor", "ledger", "query_changed_state",
           "breakdown_moves_solution", "breakdown_not_done", "nonfinite_iterate", "loop_exceeds_max_iter",
           "solver_state_shared_between_instances", "library_raised"],
    "pg": ["objective_increased", "rate_O1k", "rate_O1k2", "below_certified_optimum", "objective_not_finite",
           "saddle_point_not_fixed", "weighted_distance_increased", "not_converged", "nonfinite_iterate",
           "solution_not_in_callers_array", "dual_not_in_callers_array", "ledger", "query_changed_state",
           "solver_state_shared_between_instances", "library_raised"],
    "stop": ["iter_advances_by_one", "iter_counts_updates", "query_changed_state", "state_differs_from_canonical_run",
             "loop_exceeds_max_iter", "run_exceeds_max_iter", "run_returned_before_done", "run_output_not_held_solution",
             "run_update_count_differs_from_manual_loop", "run_result_differs_from_manual_loop",
             "early_stop_not_fixed_point", "breakdown_flagged_without_non_positive_curvature", "abandoned_update_stops_the_loop", "power_estimate_decreased",
             "power_estimate_exceeds_lmax", "power_estimate_not_finite", "library_raised"],
    "rng": ["global_rng_state_changed", "mask_not_reproducible", "earlier_mask_changed", "mask_not_binary", "mask_shape",
            "mask_dtype", "mask_empty", "accel_out_of_tolerance", "accel_le_1_accepted", "calibration_not_fully_sampled",
            "sample_outside_cropped_region", "poisson_does_not_terminate", "library_raised"],
    "ops": ["caller_array_modified", "reapplication_differs", "not_linear_over_C", "output_shape_not_advertised",
            "output_not_array"],
    "lls": ["not_the_documented_minimiser", "constraint_violated", "result_not_callers_array", "result_shape",
            "result_not_finite", "caller_array_modified", "answer_depends_on_rng_history",
            "result_depends_on_absorbed_faults", "objective_values_length",
            "objective_value_differs_from_documented_objective", "library_raised"],
}
