"""Per-world evidence texts."""
RULES = {
    "cg": "one session = one seeded plan (HPD system, preconditioner, callback forms, buggify return styles, "
          "caller schedule of update/done/peek actions, optional curvature fault at the k-th A call) executed "
          "against the real ConjugateGradient; non-trivial = at least one update judged against the dense Krylov "
          "reference or a breakdown judged; distinct = distinct fingerprints of (fault class, precision, field, n, "
          "spectrum family, A/P forms, shapes, b/x0 kinds, return styles, max_iter, tol>0, fault kinds, "
          "run-length-compressed action sequence)",
}
SIMTIME_UNIT = {
    "cg": "solver updates (this world has no clock; logical steps are reported)",
}
ASSUMPTIONS = {
    "cg": [
        "dense float64 reference (Arnoldi + Galerkin solve) is exact to ~cond*eps",
        "tolerance for Krylov optimality is tied to a textbook PCG run on the same instance in the same precision",
        "updates issued after iter >= max_iter are not judged (Alg objects are documented as run-once)",
        "sampling, not enumeration: a clean batch is evidence, not proof",
    ],
}
